/* C16 harness body: OpenMP build on the mini-GOMP runtime; results must equal the reference model for every team size and schedule. */
#include "h_common.h"
#include <m4ri/mp.h>
#include <m4ri/triangular.h>
#include <m4ri/echelonform.h>
#include <m4ri/solve.h>
const char *prop_id = "C16";
typedef struct { int kind, m, l, n, param, team, nested, prefill, limit, outer; } scen_t;
enum { F_MUL_MP, F_ADDMUL_MP, F_MUL, F_M4RM, F_ECH, F_ADDMUL_M4RM, F_TRSM_LL, F_TRSM_UL, F_TRSM_LR, F_TRSM_UR, F_ECH_PLUQ, F_INV, F_TRTRI, F_KERNEL, F_MUL_MP_SUP, F_NK };
static const char *fname[] = {"mzd_mul_mp", "mzd_addmul_mp", "mzd_mul", "mzd_mul_m4rm", "mzd_echelonize_m4ri", "mzd_addmul_m4rm", "mzd_trsm_lower_left", "mzd_trsm_upper_left", "mzd_trsm_lower_right", "mzd_trsm_upper_right", "mzd_echelonize_pluq", "mzd_inv_m4ri", "mzd_trtri_upper", "mzd_kernel_left_pluq", "mzd_mul_mp(C supplied, non-zero)"};
static scen_t SC[4096]; static int nsc = 0, cur = 0; static char NAME[200];
static pm *A, *B, *C0, *REFM; static int REFRANK; static uint64_t GOTD; static int GOTRANK;
static int g_tier = 0, g_teams_all = 0, g_prefill_only = 0; static unsigned g_kinds = 0xffffffffu; static int g_maxteam = 99, g_quicklist = 0; static char g_as[8] = "C16";
static void add(int kind, int m, int l, int n, int param, int team) { if (!(g_kinds & (1u << kind)) || team > g_maxteam) return; if (nsc < 4096) SC[nsc++] = (scen_t){kind, m, l, n, param, team, 1, 0}; }
static void add_prefill(int kind, int m, int l, int n, int param, int team) { if (nsc < 4096) SC[nsc++] = (scen_t){kind, m, l, n, param, team, 1, 1}; }
static void add_env(int kind, int m, int l, int n, int param, int team, int limit, int outer) { if (!(g_kinds & (1u << kind)) || team > g_maxteam) return; if (nsc < 4096) SC[nsc++] = (scen_t){kind, m, l, n, param, team, 1, 0, limit, outer}; }
static void add_nested(int kind, int m, int l, int n, int param, int team, int nested) { if (!(g_kinds & (1u << kind)) || team > g_maxteam) return; if (nsc < 4096) SC[nsc++] = (scen_t){kind, m, l, n, param, team, nested, 0}; }
void hb_args(int argc, char **argv) {
  int tmin = 1, tmax = 16;
  for (int i = 1; i < argc; i++) { if (!strcmp(argv[i], "--tier=thorough")) g_tier = 1; if (!strncmp(argv[i], "--teams=", 8)) { sscanf(argv[i] + 8, "%d-%d", &tmin, &tmax); g_teams_all = 1; } if (!strcmp(argv[i], "--prefill-only=1")) g_prefill_only = 1;
    /* --as=Cxx --kinds=<bitmask of F_*>: the same scenarios registered as the OpenMP-build run of another property */
    if (!strncmp(argv[i], "--as=", 5)) snprintf(g_as, sizeof g_as, "%s", argv[i] + 5); if (!strncmp(argv[i], "--max-team=", 11)) g_maxteam = atoi(argv[i] + 11); if (!strcmp(argv[i], "--list=quick")) g_quicklist = 1; if (!strncmp(argv[i], "--kinds=", 8)) g_kinds = (unsigned)strtoul(argv[i] + 8, NULL, 0); }
  if (g_prefill_only) {
    /* non-initial start state: the block cache is FULL of large blocks (just below the caching threshold) when the parallel product
       starts, so every release of a temporary inside a section evicts a large victim */
    for (int team = 2; team <= (g_tier ? 5 : 4); team++) { add_prefill(F_MUL_MP, 200, 257, 130, 64, team); add_prefill(F_ADDMUL_MP, 131, 129, 200, 64, team); if (g_tier) add_prefill(F_MUL_MP, 257, 256, 129, 128, team); }
    return;
  }
  if ((!g_tier || g_quicklist) && !g_teams_all) {
    /* quick tier: every team-size class (1, fewer than / equal to / more than the 4 sections, 16) on a reduced scenario list */
    static const int TS[] = {2, 3, 4, 1, 5, 8, 16};
    for (int ti = 0; ti < 7; ti++) { int team = TS[ti];
      add(F_MUL_MP, 129, 130, 131, 64, team); add(F_M4RM, 1025, 64, 64, 0, team);
      if (team <= 4) { add(F_ADDMUL_MP, 131, 129, 200, 64, team); add(F_ECH, 1100, 0, 200, 1, team); add(F_M4RM, 1537, 70, 65, 3, team); }
      if (team == 2 || team == 16) add(F_ECH, 1540, 0, 130, 0, team);
    }
    /* nested regions enabled: the sections of mzd_mul_mp start real inner teams inside the M4RM base case */
    add_nested(F_MUL_MP, 1200, 130, 1160, 512, 2, 2);
    /* entry points that reach the parallel loops indirectly (through mzd_addmul / the row-processing kernels): triangular solves,
       PLUQ-based elimination, inversion, with > 512 rows */
    /* the multi-core front ends on every combination of "dimension is / is not a multiple of 128" (remainder strips in rows only,
       columns only, inner dimension only, ...) */
    for (int rm = 0; rm < 8; rm++) { int m = (rm & 1) ? 300 : 256, l = (rm & 2) ? 290 : 256, n = (rm & 4) ? 200 : 256; add(F_MUL_MP, m, l, n, 64, 2); add(F_ADDMUL_MP, m, l, n, 64, 2); if (rm == 1 || rm == 4 || rm == 6) { add(F_ADDMUL_MP, m, l, n, 128, 4); add(F_MUL_MP, m, l, n, 128, 4); } }
    add(F_TRTRI, 700, 0, 0, 0, 2); add(F_TRTRI, 400, 0, 0, 0, 4);
    /* the overwriting front end with a caller-supplied destination that holds other data, on every remainder pattern */
    for (int rm = 0; rm < 8; rm++) { int m = (rm & 1) ? 300 : 256, l = (rm & 2) ? 290 : 256, n = (rm & 4) ? 200 : 256; add(F_MUL_MP_SUP, m, l, n, 64, 2); } add(F_MUL_MP_SUP, 129, 130, 131, 64, 4); add(F_MUL_MP_SUP, 100, 100, 100, 64, 2);
    /* PLE-based routines on WIDE operands (more than 8 words to the right of a pivot block) */
    add(F_ECH_PLUQ, 200, 0, 700, 1, 2); add(F_KERNEL, 150, 0, 700, 0, 2); add(F_KERNEL, 300, 0, 900, 0, 4); add(F_ECH_PLUQ, 120, 0, 1100, 1, 4);
    /* the runtime delivers FEWER threads than omp_get_max_threads() / a num_threads clause ask for (thread limit, dynamic adjustment),
       and the front ends are called from inside an application's own parallel region (inner regions serialised) */
    for (int lim = 1; lim <= 3; lim++) { add_env(F_MUL_MP, 200, 257, 130, 64, 4, lim, 0); add_env(F_ADDMUL_MP, 131, 129, 200, 64, 4, lim, 0); }
    add_env(F_MUL_MP, 200, 257, 130, 64, 16, 2, 0); add_env(F_MUL_MP, 200, 257, 130, 64, 2, 0, 1); add_env(F_ADDMUL_MP, 131, 129, 200, 64, 4, 0, 1); add_env(F_M4RM, 1025, 64, 64, 0, 2, 0, 1);
    for (int team = 2; team <= 4; team += 2) { add(F_TRSM_LL, 650, 0, 70, 0, team); add(F_TRSM_UL, 650, 0, 70, 0, team); add(F_TRSM_LR, 600, 0, 70, 0, team); add(F_TRSM_UR, 600, 0, 70, 0, team); add(F_ECH_PLUQ, 700, 0, 200, 1, team); add(F_INV, 600, 0, 0, 0, team); }
    return;
  }
  for (int ti = 0; ti < 16; ti++) {
    int team = g_teams_all ? tmin + ti : ti + 1;
    if (team > tmax || team > 16) continue;
    /* multi-core front ends: remainder strips that are not multiples of 128, cutoffs 64 and 128 */
    add(F_MUL_MP, 129, 130, 131, 64, team); add(F_MUL_MP, 200, 257, 130, 64, team); add(F_ADDMUL_MP, 131, 129, 200, 64, team); add(F_MUL_MP, 257, 256, 129, 128, team); add(F_ADDMUL_MP, 256, 257, 258, 128, team);
    add(F_MUL_MP, 128, 128, 128, 64, team); add(F_MUL_MP, 64, 300, 64, 64, team);
    /* internally parallel loops: > 512 rows so that the static chunks are spread over the threads */
    add(F_M4RM, 1025, 64, 64, 0, team); add(F_M4RM, 1537, 70, 65, 3, team); add(F_ADDMUL_M4RM, 1030, 65, 64, 0, team); add(F_MUL, 1100, 64, 130, 0, team);
    add(F_ECH, 1100, 0, 200, 1, team); add(F_ECH, 1540, 0, 130, 0, team); add(F_ECH, 520, 0, 520, 1, team);
    if (team <= 5) for (int rm = 0; rm < 8; rm++) { { int m = (rm & 1) ? 300 : 256, l = (rm & 2) ? 290 : 256, n = (rm & 4) ? 200 : 256; add(F_MUL_MP_SUP, m, l, n, 64, team); add(F_MUL_MP_SUP, m, l, n, 128, team); } int m = (rm & 1) ? 300 : 256, l = (rm & 2) ? 290 : 256, n = (rm & 4) ? 200 : 256; add(F_MUL_MP, m, l, n, 64, team); add(F_ADDMUL_MP, m, l, n, 64, team); add(F_ADDMUL_MP, m, l, n, 128, team); }
    if (team >= 2) { for (int lim = 1; lim < team && lim <= 4; lim++) { add_env(F_MUL_MP, 200, 257, 130, 64, team, lim, 0); add_env(F_ADDMUL_MP, 131, 129, 200, 64, team, lim, 0); add_env(F_MUL_MP, 300, 256, 256, 64, team, lim, 0); } add_env(F_MUL_MP, 200, 257, 130, 64, team, 0, 1); add_env(F_ADDMUL_MP, 131, 129, 200, 64, team, 0, 1); add_env(F_M4RM, 1025, 64, 64, 0, team, 0, 1); }
    if (team <= 5 || team == 8 || team == 16) { add(F_ECH_PLUQ, 200, 0, 700, 1, team); add(F_KERNEL, 150, 0, 700, 0, team); add(F_KERNEL, 300, 0, 900, 0, team); add(F_TRTRI, 700, 0, 0, 0, team); add(F_TRTRI, 400, 0, 0, 0, team); add(F_TRSM_LL, 650, 0, 70, 0, team); add(F_TRSM_UL, 650, 0, 70, 0, team); add(F_TRSM_LR, 600, 0, 70, 0, team); add(F_TRSM_UR, 600, 0, 70, 0, team); add(F_TRSM_LL, 1100, 0, 130, 0, team); add(F_TRSM_UL, 1100, 0, 65, 0, team); add(F_ECH_PLUQ, 700, 0, 200, 1, team); add(F_ECH_PLUQ, 1100, 0, 130, 0, team); add(F_INV, 600, 0, 0, 0, team); add(F_INV, 530, 0, 0, 3, team); }
    if (team >= 2 && team <= 4) { add_nested(F_MUL_MP, 1200, 700, 1160, 512, team, 2); add_nested(F_ADDMUL_MP, 1160, 650, 1200, 512, team, 2); add_nested(F_MUL_MP, 1200, 300, 1200, 512, team, 3); }
  }
}
int hb_nscenarios(void) { return nsc; }
void hb_select(int s) { cur = s; scen_t *q = &SC[s]; snprintf(NAME, sizeof NAME, "%s(%dx%dx%d,p=%d)|threads=%d%s", fname[q->kind], q->m, q->l, q->n, q->param, q->team, q->nested > 1 ? (q->nested == 2 ? "|nested=2" : "|nested=3") : q->prefill ? "|cache-prefilled" : q->limit == 1 ? "|delivered<=1" : q->limit == 2 ? "|delivered<=2" : q->limit == 3 ? "|delivered<=3" : q->limit == 4 ? "|delivered<=4" : q->outer ? "|called-inside-a-parallel-region" : ""); icb_thread_limit = q->limit; icb_team_size = q->team; icb_nested_size = q->nested;
  /* teams of 2-3: every schedule within the preemption bound; 4-5: default schedule + every single deviation, with ALL section-to-thread assignments; larger: default + every single deviation */
  icb_max_deviations = (q->team <= (q->prefill ? 2 : 3) && q->nested == 1) ? 1000 : 1; /* cache-prefilled start state: ~180 critical sections per run, so 3 threads get default + every single deviation */
  if (q->nested > 1) icb_max_deviations = g_tier ? 1 : 0; /* nested teams: the race detector judges the default schedule (quick); plus every single deviation (thorough) */ icb_free_sections = (q->team == 4 || q->team == 5);
  icb_dev_kinds = (q->team >= 8 && !g_tier) ? ((1u << 1) | (1u << 2) | (1u << 3) | (1u << 9)) : 0xffffffffu; /* quick, large teams: deviate at fork / join / sections / thread-end decisions only */ }
const char *hb_name(void) { return NAME; }
const char *hb_property(void) { return g_as; }
void hb_prepare(void) {
  scen_t *q = &SC[cur];
  if (A) { pm_free(A); A = NULL; } if (B) { pm_free(B); B = NULL; } if (C0) { pm_free(C0); C0 = NULL; } if (REFM) { pm_free(REFM); REFM = NULL; }
  if (q->kind == F_ECH) { /* rank-deficient input so that pivot gaps occur */
    pm *L = pm_pat(q->m, (q->n * 2) / 3, (pat){P_PR, 0, 1}), *R = pm_pat((q->n * 2) / 3, q->n, (pat){P_PR, 0, 2}); A = pm_mul(L, R); pm_free(L); pm_free(R);
    REFM = q->param ? pm_rref(A) : NULL; REFRANK = pm_rank(A);
  } else if (q->kind == F_KERNEL) {
    int rk = q->m < q->n ? (2 * q->m) / 3 : (2 * q->n) / 3;
    pm *L = pm_pat(q->m, rk, (pat){P_PR, 0, 1}), *R = pm_pat(rk, q->n, (pat){P_PR, 0, 2}); A = pm_mul(L, R); pm_free(L); pm_free(R); REFRANK = pm_rank(A);
  } else if (q->kind == F_ECH_PLUQ) {
    pm *L = pm_pat(q->m, (q->n * 2) / 3, (pat){P_PR, 0, 1}), *R = pm_pat((q->n * 2) / 3, q->n, (pat){P_PR, 0, 2}); A = pm_mul(L, R); pm_free(L); pm_free(R);
    REFM = pm_rref(A); REFRANK = pm_rank(A);
  } else if (q->kind == F_TRTRI) {
    A = pm_unit_upper(q->m, 4, 2); REFM = pm_inverse(A);
  } else if (q->kind == F_INV) {
    A = pm_dense_invertible(q->m, 5); REFM = pm_inverse(A);
  } else if (q->kind >= F_TRSM_LL && q->kind <= F_TRSM_UR) {
    int lower = (q->kind == F_TRSM_LL || q->kind == F_TRSM_LR), left = (q->kind == F_TRSM_LL || q->kind == F_TRSM_UL);
    pm *T = lower ? pm_unit_lower(q->m, 3, 2) : pm_unit_upper(q->m, 3, 2), *Ti = pm_inverse(T);
    B = left ? pm_pat(q->m, q->n, (pat){P_PR, 0, 2}) : pm_pat(q->n, q->m, (pat){P_PR, 0, 2});
    REFM = left ? pm_mul(Ti, B) : pm_mul(B, Ti); pm_free(Ti);
    /* junk in the unused triangle */
    for (int i = 0; i < q->m; i++) for (int j = 0; j < q->m; j++) if (lower ? j > i : j < i) pm_set(T, i, j, (i * 7 + j * 3) % 5 < 2);
    A = T;
  } else {
    A = pm_pat(q->m, q->l, (pat){P_PR, 0, 1}); B = pm_pat(q->l, q->n, (pat){P_PR, 0, 2}); C0 = pm_pat(q->m, q->n, (pat){P_PR, 0, 3});
    pm *AB = pm_mul(A, B); if (q->kind == F_ADDMUL_MP || q->kind == F_ADDMUL_M4RM) { REFM = pm_add(C0, AB); pm_free(AB); } else REFM = AB;
  }
}
static uint64_t do_op(scen_t *q, int *rank) {
  uint64_t got;
  mzd_t *Az = mzd_from_pm(A), *Bz = B ? mzd_from_pm(B) : NULL, *Cz = NULL, *R = NULL;
  switch (q->kind) {
  case F_MUL_MP: R = mzd_mul_mp(NULL, Az, Bz, q->param); break;
  case F_ADDMUL_MP: Cz = mzd_from_pm(C0); R = mzd_addmul_mp(Cz, Az, Bz, q->param); break;
  case F_MUL_MP_SUP: Cz = mzd_from_pm(C0); R = mzd_mul_mp(Cz, Az, Bz, q->param); break;
  case F_MUL: R = mzd_mul(NULL, Az, Bz, q->param); break;
  case F_M4RM: R = mzd_mul_m4rm(NULL, Az, Bz, q->param); break;
  case F_ADDMUL_M4RM: Cz = mzd_from_pm(C0); R = mzd_addmul_m4rm(Cz, Az, Bz, q->param); break;
  case F_ECH: *rank = mzd_echelonize_m4ri(Az, q->param, 0); R = Az; break;
  case F_ECH_PLUQ: *rank = mzd_echelonize_pluq(Az, 1); R = Az; break;
  case F_INV: R = mzd_inv_m4ri(NULL, Az, q->param); break;
  case F_TRTRI: mzd_trtri_upper(Az); R = Az; break;
  case F_KERNEL: { mzd_t *K = mzd_kernel_left_pluq(Az, 0); int n = A->c, r = REFRANK; got = 1;
    if (r == n) { if (K) got = 2; } else if (!K || K->nrows != n || K->ncols != n - r) got = 2;
    else { pm *Kp = pm_from_mzd(K), *AK = pm_mul(A, Kp); if (!pm_is_zero(AK) || pm_rank(Kp) != n - r) got = 2; if (mzd_padding_dirty(K) >= 0) got = 3; pm_free(Kp); pm_free(AK); }
    if (K) mzd_free(K); mzd_free(Az); return got; }
  case F_TRSM_LL: mzd_trsm_lower_left(Az, Bz, 0); R = Bz; break;
  case F_TRSM_UL: mzd_trsm_upper_left(Az, Bz, 0); R = Bz; break;
  case F_TRSM_LR: mzd_trsm_lower_right(Az, Bz, 0); R = Bz; break;
  case F_TRSM_UR: mzd_trsm_upper_right(Az, Bz, 0); R = Bz; break;
  }
  if (q->kind == F_ECH && !q->param) { pm *G = pm_from_mzd(R); pm *GR = pm_rref(G); pm *AR = pm_rref(A); got = (pm_is_row_echelon(G) && pm_eq(GR, AR)) ? 1 : 2; pm_free(G); pm_free(GR); pm_free(AR); }
  else got = mzd_eq_pm(R, REFM) ? 1 : 2;
  if (mzd_padding_dirty(R) >= 0) got = 3;
  if (R && R != Az && R != Cz && R != Bz) mzd_free(R);
  if (Cz) mzd_free(Cz);
  if (Bz) mzd_free(Bz);
  mzd_free(Az);
  return got;
}
extern void GOMP_parallel(void (*fn)(void *), void *data, unsigned num_threads, unsigned flags);
extern int omp_get_thread_num(void);
static uint64_t OUTER_GOT[4];
static void outer_body(void *a) { (void)a; int r = omp_get_thread_num(), rk = -1; if (r < 4) OUTER_GOT[r] = do_op(&SC[cur], &rk); }
void hb_root(void) {
  scen_t *q = &SC[cur]; GOTD = 0; GOTRANK = -1;
  if (q->prefill) { /* 16+2 distinct large cacheable sizes, allocated and released: the cache is full and its eviction index has advanced */
    void *F[18]; size_t base = (size_t)__M4RI_MMC_THRESHOLD - 64; for (int i = 0; i < 18; i++) F[i] = m4ri_mmc_malloc(base - 64 * (size_t)i); for (int i = 0; i < 18; i++) m4ri_mmc_free(F[i], base - 64 * (size_t)i); }
  if (q->outer) { /* an application region of 2 threads, each calling the library on its own matrices: the library's regions are nested (serialised) */
    OUTER_GOT[0] = OUTER_GOT[1] = 0; GOMP_parallel(outer_body, NULL, 2, 0); GOTD = (OUTER_GOT[0] == 1 && OUTER_GOT[1] == 1) ? 1 : (OUTER_GOT[0] == 3 || OUTER_GOT[1] == 3) ? 3 : 2;
  } else GOTD = do_op(q, &GOTRANK);
  icb_report_digest(GOTD);
}
void hb_verify(void) {
  scen_t *q = &SC[cur];
  if (GOTD != 1) { char m[200]; snprintf(m, sizeof m, "%s: result %s", NAME, GOTD == 3 ? "has non-zero padding" : "differs from the reference model (= sequential result)"); icb_fail(2, m); return; }
  if ((q->kind == F_ECH || q->kind == F_ECH_PLUQ) && GOTRANK != REFRANK) { char m[200]; snprintf(m, sizeof m, "%s: rank %d, reference %d", NAME, GOTRANK, REFRANK); icb_fail(2, m); }
}
