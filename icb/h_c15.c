/* C15 harness body: T logical threads, each creating, operating on and freeing its own matrices (thread-safe build). */
#include "h_common.h"
const char *prop_id = "C15";
static const struct { const char *op; int shape; } MENU[] = {
  {"mzd_mul", 8}, {"mzd_mul_m4rm", 3}, {"mzd_mul_naive", 1}, {"mzd_echelonize_m4ri", 6}, {"mzd_ple", 3}, {"mzd_pluq", 2}, {"mzd_solve_left", 1},
  {"mzd_kernel_left_pluq", 2}, {"mzd_transpose(NULL)", 4}, {"mzd_trsm_upper_left", 4}, {"mzd_inv_m4ri(NULL)", 3}, {"mzd_addmul", 4}, {"mzd_apply_p_right", 4}, {"mzd_echelonize_pluq", 7},
  /* second block: the solver entry points on a WIDE system (padding rows exist), the factor-then-solve route, and the remaining families */
  {"mzd_solve_left", 2}, {"mzd_pluq+mzd_pluq_solve_left", 2}, {"mzd_pluq+mzd_pluq_solve_left", 3}, {"mzd_trtri_upper", 4}, {"mzd_invert_naive(NULL)", 2}, {"mzd_echelonize", 8}, {"mzd_trsm_lower_right", 4}, {"mzd_top_echelonize_m4ri", 3}};
#define NMENU (int)(sizeof(MENU) / sizeof(MENU[0]))
typedef struct { int nthreads; int ops[16]; int burst; } scen_t;
static scen_t SC[4096]; static int nsc = 0, cur = 0; static char NAME[200];
static uint64_t REF[16]; static uint64_t GOT[16];
static int g_tier = 0, g_allocpts = 0;

void hb_args(int argc, char **argv) {
  for (int i = 1; i < argc; i++) { if (!strcmp(argv[i], "--tier=thorough")) g_tier = 1; if (!strncmp(argv[i], "--alloc-points=", 15)) g_allocpts = atoi(argv[i] + 15); }
  /* all ordered pairs */
  for (int a = 0; a < NMENU; a++) for (int b = 0; b < NMENU; b++) { SC[nsc].nthreads = 2; SC[nsc].ops[0] = a; SC[nsc].ops[1] = b; nsc++; }
  /* triples (a, a+1, a+5) and the same op three times */
  for (int a = 0; a < NMENU; a++) { SC[nsc].nthreads = 3; SC[nsc].ops[0] = a; SC[nsc].ops[1] = (a + 1) % NMENU; SC[nsc].ops[2] = (a + 5) % NMENU; nsc++; }
  for (int a = 0; a < NMENU; a += 2) { SC[nsc].nthreads = 3; SC[nsc].ops[0] = SC[nsc].ops[1] = SC[nsc].ops[2] = a; nsc++; }
  /* 16 threads */
  for (int r = 0; r < 2; r++) { SC[nsc].nthreads = 16; for (int t = 0; t < 16; t++) SC[nsc].ops[t] = (t * (r + 1) + r) % NMENU; nsc++; }
  /* allocation bursts: init / window / free interleaved with an operation */
  for (int a = 0; a < NMENU; a += 3) { SC[nsc].nthreads = 2; SC[nsc].ops[0] = a; SC[nsc].ops[1] = -1; SC[nsc].burst = 1; nsc++; }
}
int hb_nscenarios(void) { return nsc; }
void hb_select(int s) { cur = s;
  /* with many threads the allocator order only permutes addresses: static-storage points + race detector, default schedule plus every single deviation */
  icb_alloc_points = (SC[s].nthreads == 2 && (g_tier || SC[s].burst || SC[s].ops[0] <= SC[s].ops[1])) || (SC[s].nthreads == 3 && g_tier) ? g_allocpts : 0; icb_max_deviations = (SC[s].nthreads <= 3) ? 1000 : 1;
  size_t o = 0; o += (size_t)snprintf(NAME, sizeof NAME, "T=%d:", SC[s].nthreads); for (int t = 0; t < SC[s].nthreads && o + 40 < sizeof NAME; t++) o += (size_t)snprintf(NAME + o, sizeof NAME - o, "%s%s", t ? "||" : "", SC[s].ops[t] >= 0 ? MENU[SC[s].ops[t]].op : "init/window/free-burst"); }
const char *hb_name(void) { return NAME; }
const char *hb_property(void) { return "C15"; }

static uint64_t burst(int t) {
  uint64_t h = 7; mzd_t *M[6];
  for (int r = 0; r < 3; r++) {
    for (int i = 0; i < 6; i++) { M[i] = mzd_init(3 + i + t, 64 + 7 * i); mzd_write_bit(M[i], 1, i, 1); }
    mzd_t *W = mzd_init_window(M[2], 0, 0, 2, 64); h = h64(h, (uint64_t)mzd_read_bit(W, 1, 2)); mzd_free(W);
    for (int i = 0; i < 6; i += 2) mzd_free(M[i]);
    for (int i = 0; i < 6; i += 2) { M[i] = mzd_init(3 + i + t, 64 + 7 * i); h = h64(h, (uint64_t)mzd_is_zero(M[i])); }
    for (int i = 0; i < 6; i++) mzd_free(M[i]);
  }
  return h;
}
static uint64_t body(int t) {
  int oi = SC[cur].ops[t];
  if (oi < 0) return burst(t);
  const vop *o = find_op(MENU[oi].op);
  return run_digest(o, &o->shapes[MENU[oi].shape % o->nshapes], t & 1);
}
#include <sys/mman.h>
#include <sys/wait.h>
/* sequential reference digests are computed in a CHILD process: the explorer's own image must stay cold, otherwise lazily
   initialised library state (a table built on first use, a warm cache) would already exist when the threads start */
void hb_prepare(void) {
  static uint64_t *shm; if (!shm) shm = mmap(NULL, 4096, PROT_READ | PROT_WRITE, MAP_SHARED | MAP_ANONYMOUS, -1, 0);
  pid_t p = fork();
  if (p == 0) { for (int t = 0; t < SC[cur].nthreads; t++) shm[t] = body(t); _exit(0); }
  int st; waitpid(p, &st, 0);
  if (!(WIFEXITED(st) && WEXITSTATUS(st) == 0)) { fprintf(stderr, "HARNESS-ERROR: sequential reference run failed\n"); _exit(2); }
  for (int t = 0; t < SC[cur].nthreads; t++) REF[t] = shm[t];
}
static void tmain(void *a) { int t = (int)(intptr_t)a; GOT[t] = body(t); }
void hb_root(void) {
  memset(GOT, 0, sizeof GOT);
  for (int t = 1; t < SC[cur].nthreads; t++) icb_spawn(tmain, (void *)(intptr_t)t);
  tmain((void *)(intptr_t)0);
  icb_join_all();
  for (int t = 0; t < SC[cur].nthreads; t++) icb_report_digest(GOT[t]);
}
void hb_verify(void) {
  for (int t = 0; t < SC[cur].nthreads; t++) if (GOT[t] != REF[t]) { char m[200]; snprintf(m, sizeof m, "thread %d (%s): result differs from the sequential execution", t, SC[cur].ops[t] >= 0 ? MENU[SC[cur].ops[t]].op : "burst"); icb_fail(2, m); return; }
}
