/* ICB: preemption-bounded scheduler (iterative context bounding) with a happens-before race detector and a mini-GOMP
 * runtime, for C15 (thread-safe build) and C16 (OpenMP build).
 *
 * - Logical threads are ucontext coroutines driven by one OS thread: fully deterministic.
 * - The library is compiled with -fsanitize=thread; the __tsan_* callbacks are OURS: every load/store of library code is seen.
 * - Scheduling points: parallel-region fork, GOMP_sections_next, GOMP_critical_name_start, allocator calls (optional),
 *   writes to static storage and reads of static storage that was written since the threads started, thread end / join.
 * - Each execution runs in a forked child (identical initial state and addresses); a schedule is the list of chosen indices
 *   into the canonical enabled list (running thread first, then ascending ids).
 * - Explorer: DFS over schedule prefixes with a preemption bound, 16 worker processes sharing a prefix queue. */
#define _GNU_SOURCE
#include <stdio.h>
#include <stdlib.h>
#include <string.h>
#include <stdint.h>
#include <stdarg.h>
#include <unistd.h>
#include <errno.h>
#include <signal.h>
#include <ucontext.h>
#include <sys/mman.h>
#include <sys/wait.h>
#include <sys/time.h>
#include "icb.h"

extern void *__real_malloc(size_t); extern void __real_free(void *); extern int __real_posix_memalign(void **, size_t, size_t);
extern void *__real_calloc(size_t, size_t); extern void *__real_realloc(void *, size_t);
extern void *__real_memset(void *, int, size_t); extern void *__real_memcpy(void *, const void *, size_t);
extern void __real_m4ri_die(const char *, ...);
extern char __data_start, _end, __executable_start;
#define PCOFF(pc) ((void *)((uintptr_t)(pc) - (uintptr_t)&__executable_start))

static double now(void) { struct timeval tv; gettimeofday(&tv, NULL); return tv.tv_sec + tv.tv_usec * 1e-6; }

/* ======================= per-execution state (private to the child) ======================= */
#define MAXT 24
#define STACKSZ (1u << 20)
enum { T_UNUSED, T_RUN, T_LOCKWAIT, T_JOINWAIT, T_DONE, T_BARWAIT };
typedef struct { int size, rank, team, ws, curws; } teamctx; /* ws = work-sharing constructs this thread has entered in this team */
typedef struct {
  ucontext_t ctx; char *stack; int state; int parent; void (*fn)(void *); void *arg;
  uint32_t vc[MAXT]; uint32_t joinvc[MAXT]; int waitlock; int nchildren_live; teamctx tc[8]; int tcdepth; int holds;
  uint64_t rdhash; long points;
} thr_t;
static thr_t TH[MAXT]; static int CUR = -1; static ucontext_t SCHED;
typedef struct { void *key; int owner; uint32_t vc[MAXT]; } lock_t;
static lock_t LOCKS[16]; static int nlocks = 0;
typedef struct { long next, end, incr, chunk; } wshare_t;
typedef struct { int next, count; int arrived, gen, ws_inited; uint32_t barvc[MAXT], relvc[MAXT]; wshare_t ws[8]; } team_t;
static team_t TEAMS[4096]; static int nteams = 0;

/* trace shared with the explorer */
#define MAXPTS 20000
typedef struct {
  volatile int npts; uint8_t nen[MAXPTS], chosen[MAXPTS], runen[MAXPTS]; uint8_t kind[MAXPTS];
  volatile int verdict; /* 0 ok, 1 race, 2 digest mismatch, 3 deadlock, 4 harness error, 5 horizon, 6 prefix divergence */
  char msg[600]; volatile uint64_t accesses, static_writes, cross_thread_locations; volatile int maxthreads; uint64_t digest[MAXT]; volatile int ndig;
} trace_t;
static trace_t *TR;
static const uint8_t *PREFIX; static int PREFLEN = 0;
int icb_team_size = 4; int icb_alloc_points = 0; int icb_nested_size = 1; /* team size of nested regions (1 = serialised like libgomp's default) */ int icb_thread_limit = 0; /* > 0: a top-level region is delivered at most this many threads although omp_get_max_threads() and a num_threads clause say more (OMP_THREAD_LIMIT / dynamic adjustment) */ static int g_in_exec = 0;

static void verdict(int v, const char *fmt, ...) {
  if (TR->verdict) return;
  TR->verdict = v; va_list ap; va_start(ap, fmt); vsnprintf(TR->msg, sizeof TR->msg, fmt, ap); va_end(ap);
}

/* ======================= race detector ======================= */
typedef struct { uint32_t wclk; uint8_t wtid, everw, pad[2]; uint32_t rclk[MAXT]; } shadow_t;
/* shadow memory: open-addressed table of BLOCKS of 64 consecutive 4-byte granules (256 bytes of program memory).  Inside a block
   the entries are contiguous (page locality for row sweeps); blocks are placed by a multiplicative hash, so two long contiguous
   address ranges cannot pile up into one probe cluster (the first version hashed single granules with a locality-preserving
   function and, depending on ASLR, spent minutes probing through overlapping ranges). */
typedef struct { uint64_t bkey; shadow_t e[64]; } shblock_t;
static shblock_t *SH; static uint64_t SHCAP = 1u << 16; static uint64_t sh_used = 0, sh_probes = 0;
static inline shadow_t *sh_get(uint64_t key) {
  uint64_t bk = (key >> 6) | (1ULL << 63), h = (bk * 0x9E3779B97F4A7C15ULL) >> 40;
  for (uint64_t i = 0; i < SHCAP; i++) { shblock_t *b = &SH[(h + i) & (SHCAP - 1)]; if (b->bkey == bk) { sh_probes += i; return &b->e[key & 63]; } if (b->bkey == 0) { if (sh_used * 2 > SHCAP) break; b->bkey = bk; sh_used++; sh_probes += i; return &b->e[key & 63]; } }
  verdict(4, "shadow table full"); return &SH[0].e[0];
}
static inline shadow_t *sh_find(uint64_t key) {
  uint64_t bk = (key >> 6) | (1ULL << 63), h = (bk * 0x9E3779B97F4A7C15ULL) >> 40;
  for (uint64_t i = 0; i < SHCAP; i++) { shblock_t *b = &SH[(h + i) & (SHCAP - 1)]; if (b->bkey == bk) return &b->e[key & 63]; if (b->bkey == 0) return NULL; }
  return NULL;
}
static void sh_clear_range(const void *p, size_t n) {
  uintptr_t a = (uintptr_t)p & ~(uintptr_t)3, b = (uintptr_t)p + n;
  for (; a < b; a += 4) { shadow_t *e = sh_find(a >> 2 | (1ULL << 62)); if (e) { e->wclk = 0; e->wtid = 0; e->everw = 0; memset(e->rclk, 0, sizeof e->rclk); } }
}
static inline int own_stack(uintptr_t a) { thr_t *t = &TH[CUR]; return a >= (uintptr_t)t->stack && a < (uintptr_t)t->stack + STACKSZ; }
static inline int is_static(uintptr_t a) { return a >= (uintptr_t)&__data_start && a < (uintptr_t)&_end; }
static void sched_point(int kind);
static const char *where(uintptr_t a, char *buf) {
  if (is_static(a)) snprintf(buf, 64, "static storage +0x%lx", (unsigned long)(a - (uintptr_t)&__data_start));
  else { int st = -1; for (int i = 0; i < MAXT; i++) if (TH[i].stack && a >= (uintptr_t)TH[i].stack && a < (uintptr_t)TH[i].stack + STACKSZ) st = i; if (st >= 0) snprintf(buf, 64, "stack of thread %d", st); else snprintf(buf, 64, "a heap block"); }
  return buf;
}
static inline void access1(uintptr_t a, int is_write, void *pc) {
  thr_t *t = &TH[CUR]; int me = CUR;
  shadow_t *e = sh_get(a >> 2 | (1ULL << 62));
  if (is_write) {
    if (e->wclk && e->wtid != me && e->wclk > t->vc[e->wtid]) { char b[64]; verdict(1, "data race: write by thread %d after unsynchronised write by thread %d on %s (code offset %p)", me, e->wtid, where(a, b), PCOFF(pc)); }
    for (int u = 0; u < MAXT; u++) if (u != me && e->rclk[u] > t->vc[u]) { char b[64]; verdict(1, "data race: write by thread %d concurrent with read by thread %d on %s (code offset %p)", me, u, where(a, b), PCOFF(pc)); break; }
    e->wtid = (uint8_t)me; e->wclk = t->vc[me]; e->everw = 1;
  } else {
    if (e->wclk && e->wtid != me && e->wclk > t->vc[e->wtid]) { char b[64]; verdict(1, "data race: read by thread %d concurrent with write by thread %d on %s (code offset %p)", me, e->wtid, where(a, b), PCOFF(pc)); }
    if (e->wclk && e->wtid != me) TR->cross_thread_locations++;
    e->rclk[me] = t->vc[me];
  }
}
static inline void on_access(void *addr, int size, int is_write, void *pc) {
  if (!g_in_exec || CUR < 0) return;
  uintptr_t a = (uintptr_t)addr;
  if (own_stack(a)) return;
  TR->accesses++;
  /* scheduling point: writes to static storage, reads of static storage written during this execution; not while holding a lock */
  if (is_static(a) && !TH[CUR].holds) {
    if (is_write) { TR->static_writes++; sched_point(4); }
    else { shadow_t *e = sh_find(a >> 2 | (1ULL << 62)); if (e && e->everw) sched_point(5); }
  }
  for (uintptr_t x = a & ~(uintptr_t)3; x < a + (uintptr_t)size; x += 4) access1(x, is_write, pc);
  if (!is_write && is_static(a)) { uint64_t v = 0; memcpy(&v, addr, size > 8 ? 8 : (size_t)size); TH[CUR].rdhash = TH[CUR].rdhash * 1099511628211ULL ^ v ^ a; }
}
void __tsan_init(void) {}
void __tsan_func_entry(void *pc) { (void)pc; }
void __tsan_func_exit(void) {}
#define RD(n) void __tsan_read##n(void *a) { on_access(a, n, 0, __builtin_return_address(0)); } void __tsan_unaligned_read##n(void *a) { on_access(a, n, 0, __builtin_return_address(0)); }
#define WR(n) void __tsan_write##n(void *a) { on_access(a, n, 1, __builtin_return_address(0)); } void __tsan_unaligned_write##n(void *a) { on_access(a, n, 1, __builtin_return_address(0)); }
RD(1) RD(2) RD(4) RD(8) RD(16) WR(1) WR(2) WR(4) WR(8) WR(16)
void __tsan_read_range(void *a, unsigned long n) { for (unsigned long i = 0; i < n; i += 4) on_access((char *)a + i, 4, 0, __builtin_return_address(0)); }
void __tsan_write_range(void *a, unsigned long n) { for (unsigned long i = 0; i < n; i += 4) on_access((char *)a + i, 4, 1, __builtin_return_address(0)); }
void __tsan_vptr_update(void *a, void *b) { (void)a; (void)b; }

/* libc memory functions called by library code */
void *__wrap_memset(void *p, int c, size_t n) { if (g_in_exec && CUR >= 0 && !own_stack((uintptr_t)p)) for (size_t i = 0; i < n; i += 4) { TR->accesses++; access1(((uintptr_t)p + i) & ~(uintptr_t)3, 1, __builtin_return_address(0)); } return __real_memset(p, c, n); }
void *__wrap_memcpy(void *d, const void *s, size_t n) {
  if (g_in_exec && CUR >= 0) { if (!own_stack((uintptr_t)d)) for (size_t i = 0; i < n; i += 4) access1(((uintptr_t)d + i) & ~(uintptr_t)3, 1, __builtin_return_address(0)); if (!own_stack((uintptr_t)s)) for (size_t i = 0; i < n; i += 4) access1(((uintptr_t)s + i) & ~(uintptr_t)3, 0, __builtin_return_address(0)); }
  return __real_memcpy(d, s, n);
}

/* ======================= scheduler ======================= */
static int g_lastkind = 0;
static int enabled_list(int *out) {
  int n = 0;
  if (CUR >= 0 && TH[CUR].state == T_RUN) out[n++] = CUR;
  for (int i = 0; i < MAXT; i++) if (i != CUR && TH[i].state == T_RUN) out[n++] = i;
  return n;
}
static void pick_next(int kind) {
  int en[MAXT], n = enabled_list(en);
  if (n == 0) { int live = 0; for (int i = 0; i < MAXT; i++) if (TH[i].state == T_LOCKWAIT || TH[i].state == T_JOINWAIT || TH[i].state == T_BARWAIT) live++; if (live) verdict(3, "deadlock: no enabled thread while %d thread(s) are blocked", live); CUR = -1; return; }
  int choice = 0;
  int idx = TR->npts;
  if (n > 1 || (CUR >= 0 && TH[CUR].state != T_RUN)) {
    /* a decision (also recorded when the running thread cannot continue and several others can) */
    if (n > 1) {
      if (idx >= MAXPTS) { verdict(5, "horizon: more than %d scheduling decisions", MAXPTS); CUR = -1; return; }
      if (idx < PREFLEN) { choice = PREFIX[idx]; if (choice >= n) { verdict(6, "prefix divergence at decision %d: choice %d of %d enabled", idx, choice, n); CUR = -1; return; } }
      TR->nen[idx] = (uint8_t)n; TR->chosen[idx] = (uint8_t)choice; TR->runen[idx] = (uint8_t)(CUR >= 0 && TH[CUR].state == T_RUN); TR->kind[idx] = (uint8_t)((CUR >= 0 && TH[CUR].state == T_RUN) ? g_lastkind : 9); TR->npts = idx + 1;
    }
  }
  CUR = en[choice];
}
/* called from a logical thread */
static void sched_point(int kind) {
  if (!g_in_exec || CUR < 0 || TR->verdict) return;
  int me = CUR; TH[me].points++; g_lastkind = kind;
  int en[MAXT]; if (TH[me].state == T_RUN && enabled_list(en) <= 1) return; /* nobody else can run: not a decision */
  swapcontext(&TH[me].ctx, &SCHED);
}
static void thread_entry(int id) {
  TH[id].fn(TH[id].arg);
  TH[id].state = T_DONE;
  int p = TH[id].parent;
  if (p >= 0) { for (int u = 0; u < MAXT; u++) if (TH[id].vc[u] > TH[p].joinvc[u]) TH[p].joinvc[u] = TH[id].vc[u]; /* join edge: merged into the parent's clock only when the parent actually joins */ TH[p].nchildren_live--; if (TH[p].nchildren_live == 0 && TH[p].state == T_JOINWAIT) TH[p].state = T_RUN; }
  swapcontext(&TH[id].ctx, &SCHED);
}
static int spawn_thread(int parent, void (*fn)(void *), void *arg) {
  int id = -1; for (int i = 0; i < MAXT; i++) if (TH[i].state == T_UNUSED || (TH[i].state == T_DONE && i != parent && i != CUR)) { id = i; break; }
  if (id < 0) { verdict(4, "too many logical threads"); return -1; }
  thr_t *t = &TH[id]; char *stk = t->stack; uint32_t oldclk = t->vc[id];
  if (!stk) stk = mmap(NULL, STACKSZ, PROT_READ | PROT_WRITE, MAP_PRIVATE | MAP_ANONYMOUS, -1, 0);
  memset(t, 0, sizeof *t); t->stack = stk; t->state = T_RUN; t->parent = parent; t->fn = fn; t->arg = arg; t->waitlock = -1;
  if (parent >= 0) { memcpy(t->vc, TH[parent].vc, sizeof t->vc); TH[parent].vc[parent]++; TH[parent].nchildren_live++; memcpy(t->tc, TH[parent].tc, sizeof t->tc); t->tcdepth = TH[parent].tcdepth; }
  t->vc[id] = (t->vc[id] > oldclk ? t->vc[id] : oldclk) + 1;
  getcontext(&t->ctx); t->ctx.uc_stack.ss_sp = stk; t->ctx.uc_stack.ss_size = STACKSZ; t->ctx.uc_link = &SCHED;
  makecontext(&t->ctx, (void (*)(void))thread_entry, 1, id);
  int nl = 0; for (int i = 0; i < MAXT; i++) if (TH[i].state != T_UNUSED && TH[i].state != T_DONE) nl++; if (nl > TR->maxthreads) TR->maxthreads = nl;
  return id;
}
static void run_scheduler(void) {
  CUR = -1; pick_next(0);
  while (CUR >= 0 && !TR->verdict) {
    swapcontext(&SCHED, &TH[CUR].ctx);
    if (TR->verdict) break;
    pick_next(9);
  }
}
static void wait_children(void) {
  int me = CUR;
  while (TH[me].nchildren_live > 0 && !TR->verdict) { TH[me].state = T_JOINWAIT; swapcontext(&TH[me].ctx, &SCHED); }
  TH[me].state = T_RUN;
  for (int u = 0; u < MAXT; u++) { if (TH[me].joinvc[u] > TH[me].vc[u]) TH[me].vc[u] = TH[me].joinvc[u]; TH[me].joinvc[u] = 0; }
}

/* user threads (C15) */
int icb_spawn(void (*fn)(void *), void *arg) { return spawn_thread(CUR, fn, arg); }
void icb_join_all(void) { sched_point(1); wait_children(); }
void icb_report_digest(uint64_t d) { if (TR->ndig < MAXT) TR->digest[TR->ndig++] = d; }
void icb_fail(int v, const char *msg) { verdict(v, "%s", msg); }
int icb_self(void) { return CUR; }

/* ======================= mini-GOMP ======================= */
static teamctx *curtc(void) { thr_t *t = &TH[CUR]; return t->tcdepth ? &t->tc[t->tcdepth - 1] : NULL; }
int omp_get_num_threads(void) { teamctx *c = (g_in_exec && CUR >= 0) ? curtc() : NULL; return c ? c->size : 1; }
int omp_get_thread_num(void) { teamctx *c = (g_in_exec && CUR >= 0) ? curtc() : NULL; return c ? c->rank : 0; }
int omp_get_max_threads(void) { return icb_team_size; }
typedef struct { void (*fn)(void *); void *data; int size, rank, team; } tstart;
static void team_member(void *a) { tstart *s = a; thr_t *t = &TH[CUR]; t->tc[t->tcdepth++] = (teamctx){s->size, s->rank, s->team, 0, 0}; s->fn(s->data); t->tcdepth--; }
static int seq_next = 0, seq_count = 0;
static void parallel_common(void (*fn)(void *), void *data, unsigned num_threads, int nsections) {
  if (!g_in_exec || CUR < 0) { int sn = seq_next, sc = seq_count; seq_next = 1; seq_count = nsections; fn(data); seq_next = sn; seq_count = sc; return; }
  thr_t *t = &TH[CUR];
  int nested = 0; for (int i = 0; i < t->tcdepth; i++) if (t->tc[i].size > 1) nested = 1;
  int N = nested ? icb_nested_size : (num_threads ? (int)num_threads : icb_team_size);
  if (!nested && icb_thread_limit > 0 && N > icb_thread_limit) N = icb_thread_limit;
  if (nested && t->tcdepth >= 2 && N > 1) { int deep = 0; for (int i = 0; i < t->tcdepth; i++) if (t->tc[i].size > 1) deep++; if (deep >= 2) N = 1; } /* at most two active levels */
  if (nteams >= 4096) { verdict(4, "too many teams"); return; }
  int team = nteams++; memset(&TEAMS[team], 0, sizeof TEAMS[team]); TEAMS[team].next = 1; TEAMS[team].count = nsections;
  tstart ts[MAXT]; int me = CUR;
  for (int r = 1; r < N; r++) { ts[r] = (tstart){fn, data, N, r, team}; if (spawn_thread(me, team_member, &ts[r]) < 0) return; }
  if (N > 1) sched_point(1); /* who runs first */
  t = &TH[me]; t->tc[t->tcdepth++] = (teamctx){N, 0, team, 0, 0};
  fn(data);
  t = &TH[me]; t->tcdepth--;
  if (N > 1) { sched_point(2); wait_children(); TH[me].vc[me]++; }
}
void GOMP_parallel(void (*fn)(void *), void *data, unsigned num_threads, unsigned flags) { (void)flags; parallel_common(fn, data, num_threads, 0); }
void GOMP_parallel_sections(void (*fn)(void *), void *data, unsigned num_threads, unsigned count, unsigned flags) { (void)flags; parallel_common(fn, data, num_threads, (int)count); }
unsigned GOMP_sections_next(void) {
  if (!g_in_exec || CUR < 0) return seq_next <= seq_count ? (unsigned)seq_next++ : 0;
  sched_point(3);
  teamctx *c = curtc(); if (!c) return 0; team_t *tm = &TEAMS[c->team];
  /* the section counter is runtime state shared by the team: the runtime synchronises it */
  if (tm->next <= tm->count) return (unsigned)tm->next++;
  return 0;
}
void GOMP_sections_end_nowait(void) {}
/* team barrier: every member's clock is merged on arrival and acquired on release (all-to-all happens-before edges) */
void GOMP_barrier(void) {
  if (!g_in_exec || CUR < 0) return;
  teamctx *c = curtc(); if (!c || c->size <= 1) return;
  sched_point(10);
  int me = CUR; c = curtc(); team_t *tm = &TEAMS[c->team]; int team = c->team, size = c->size;
  for (int u = 0; u < MAXT; u++) if (TH[me].vc[u] > tm->barvc[u]) tm->barvc[u] = TH[me].vc[u];
  TH[me].vc[me]++;
  int gen = tm->gen;
  if (++tm->arrived == size) {
    tm->arrived = 0; tm->gen++; memcpy(tm->relvc, tm->barvc, sizeof tm->relvc); memset(tm->barvc, 0, sizeof tm->barvc);
    for (int u = 0; u < MAXT; u++) if (TH[u].state == T_BARWAIT && TH[u].waitlock == team) TH[u].state = T_RUN;
  } else {
    while (tm->gen == gen && !TR->verdict) { TH[me].state = T_BARWAIT; TH[me].waitlock = team; swapcontext(&TH[me].ctx, &SCHED); }
    TH[me].state = T_RUN; TH[me].waitlock = -1;
  }
  for (int u = 0; u < MAXT; u++) if (tm->relvc[u] > TH[me].vc[u]) TH[me].vc[u] = tm->relvc[u];
}
void GOMP_sections_end(void) { GOMP_barrier(); }
/* work-sharing loops with a runtime-scheduled iteration space (dynamic / guided / runtime): which thread gets which chunk is a
   scheduling decision; static schedules are inlined by the compiler and need no runtime call */
static long seq_ws_done;
static int ws_start(long start, long end, long incr, long chunk, long *is, long *ie) {
  teamctx *c = (g_in_exec && CUR >= 0) ? curtc() : NULL;
  if (!c) { seq_ws_done = 1; *is = start; *ie = end; return incr > 0 ? start < end : start > end; }
  team_t *tm = &TEAMS[c->team]; int k = c->ws++;
  if (k == tm->ws_inited) { tm->ws[k & 7] = (wshare_t){start, end, incr, chunk > 0 ? chunk : 1}; tm->ws_inited++; }
  c->curws = k;
  sched_point(3); c = curtc(); tm = &TEAMS[c->team];
  wshare_t *w = &tm->ws[c->curws & 7];
  if (w->incr > 0 ? w->next >= w->end : w->next <= w->end) return 0;
  *is = w->next; long e = w->next + w->chunk * w->incr; if (w->incr > 0 ? e > w->end : e < w->end) e = w->end; *ie = e; w->next = e; return 1;
}
static int ws_next(long *is, long *ie) {
  teamctx *c = (g_in_exec && CUR >= 0) ? curtc() : NULL;
  if (!c) return 0;
  sched_point(3); c = curtc(); team_t *tm = &TEAMS[c->team];
  wshare_t *w = &tm->ws[c->curws & 7];
  if (w->incr > 0 ? w->next >= w->end : w->next <= w->end) return 0;
  *is = w->next; long e = w->next + w->chunk * w->incr; if (w->incr > 0 ? e > w->end : e < w->end) e = w->end; *ie = e; w->next = e; return 1;
}
_Bool GOMP_loop_dynamic_start(long s, long e, long i, long ch, long *is, long *ie) { return ws_start(s, e, i, ch, is, ie); }
_Bool GOMP_loop_dynamic_next(long *is, long *ie) { return ws_next(is, ie); }
_Bool GOMP_loop_nonmonotonic_dynamic_start(long s, long e, long i, long ch, long *is, long *ie) { return ws_start(s, e, i, ch, is, ie); }
_Bool GOMP_loop_nonmonotonic_dynamic_next(long *is, long *ie) { return ws_next(is, ie); }
_Bool GOMP_loop_guided_start(long s, long e, long i, long ch, long *is, long *ie) { return ws_start(s, e, i, ch, is, ie); }
_Bool GOMP_loop_guided_next(long *is, long *ie) { return ws_next(is, ie); }
_Bool GOMP_loop_nonmonotonic_guided_start(long s, long e, long i, long ch, long *is, long *ie) { return ws_start(s, e, i, ch, is, ie); }
_Bool GOMP_loop_nonmonotonic_guided_next(long *is, long *ie) { return ws_next(is, ie); }
_Bool GOMP_loop_maybe_nonmonotonic_runtime_start(long s, long e, long i, long *is, long *ie) { return ws_start(s, e, i, 1, is, ie); }
_Bool GOMP_loop_maybe_nonmonotonic_runtime_next(long *is, long *ie) { return ws_next(is, ie); }
_Bool GOMP_loop_runtime_start(long s, long e, long i, long *is, long *ie) { return ws_start(s, e, i, 1, is, ie); }
_Bool GOMP_loop_runtime_next(long *is, long *ie) { return ws_next(is, ie); }
void GOMP_loop_end(void) { GOMP_barrier(); }
void GOMP_loop_end_nowait(void) {}
_Bool GOMP_single_start(void) {
  teamctx *c = (g_in_exec && CUR >= 0) ? curtc() : NULL;
  if (!c) return 1;
  sched_point(3); c = curtc(); team_t *tm = &TEAMS[c->team]; int k = c->ws++;
  if (k == tm->ws_inited) { tm->ws_inited++; return 1; }
  return 0;
}
void GOMP_critical_name_start(void **pptr) {
  if (!g_in_exec || CUR < 0) return;
  int li = -1; for (int i = 0; i < nlocks; i++) if (LOCKS[i].key == (void *)pptr) li = i;
  if (li < 0 && nlocks >= 16) { verdict(4, "too many named critical sections"); return; }
  if (li < 0) { li = nlocks++; LOCKS[li].key = (void *)pptr; LOCKS[li].owner = -1; }
  sched_point(6);
  int me = CUR;
  while (LOCKS[li].owner >= 0 && !TR->verdict) { TH[me].state = T_LOCKWAIT; TH[me].waitlock = li; swapcontext(&TH[me].ctx, &SCHED); }
  TH[me].state = T_RUN; TH[me].waitlock = -1; LOCKS[li].owner = me; TH[me].holds++;
  for (int u = 0; u < MAXT; u++) if (LOCKS[li].vc[u] > TH[me].vc[u]) TH[me].vc[u] = LOCKS[li].vc[u];
}
void GOMP_critical_name_end(void **pptr) {
  if (!g_in_exec || CUR < 0) return;
  int me = CUR;
  for (int i = 0; i < nlocks; i++) if (LOCKS[i].key == (void *)pptr) {
    if (LOCKS[i].owner != me) { verdict(4, "critical end by non-owner"); return; }
    memcpy(LOCKS[i].vc, TH[me].vc, sizeof LOCKS[i].vc); TH[me].vc[me]++; LOCKS[i].owner = -1; TH[me].holds--;
    for (int u = 0; u < MAXT; u++) if (TH[u].state == T_LOCKWAIT && TH[u].waitlock == i) TH[u].state = T_RUN;
  }
}
static void *unnamed_critical, *atomic_lock;
void GOMP_critical_start(void) { GOMP_critical_name_start(&unnamed_critical); }
void GOMP_critical_end(void) { GOMP_critical_name_end(&unnamed_critical); }
void GOMP_atomic_start(void) { GOMP_critical_name_start(&atomic_lock); }
void GOMP_atomic_end(void) { GOMP_critical_name_end(&atomic_lock); }
/* compiler-generated atomics (#pragma omp atomic, __atomic builtins) arrive as __tsan_atomic*: modelled as one global lock
   (sequentially consistent, so never weaker than the real thing for race-freedom of the OTHER accesses it orders) */
#define ATOM(n, T) \
  T __tsan_atomic##n##_load(const volatile T *a, int mo) { (void)mo; GOMP_atomic_start(); T v = *a; GOMP_atomic_end(); return v; } \
  void __tsan_atomic##n##_store(volatile T *a, T v, int mo) { (void)mo; GOMP_atomic_start(); *a = v; GOMP_atomic_end(); } \
  T __tsan_atomic##n##_exchange(volatile T *a, T v, int mo) { (void)mo; GOMP_atomic_start(); T o = *a; *a = v; GOMP_atomic_end(); return o; } \
  T __tsan_atomic##n##_fetch_add(volatile T *a, T v, int mo) { (void)mo; GOMP_atomic_start(); T o = *a; *a = o + v; GOMP_atomic_end(); return o; } \
  T __tsan_atomic##n##_fetch_sub(volatile T *a, T v, int mo) { (void)mo; GOMP_atomic_start(); T o = *a; *a = o - v; GOMP_atomic_end(); return o; } \
  T __tsan_atomic##n##_fetch_and(volatile T *a, T v, int mo) { (void)mo; GOMP_atomic_start(); T o = *a; *a = o & v; GOMP_atomic_end(); return o; } \
  T __tsan_atomic##n##_fetch_or(volatile T *a, T v, int mo) { (void)mo; GOMP_atomic_start(); T o = *a; *a = o | v; GOMP_atomic_end(); return o; } \
  T __tsan_atomic##n##_fetch_xor(volatile T *a, T v, int mo) { (void)mo; GOMP_atomic_start(); T o = *a; *a = o ^ v; GOMP_atomic_end(); return o; } \
  int __tsan_atomic##n##_compare_exchange_strong(volatile T *a, T *e, T v, int mo, int fmo) { (void)mo; (void)fmo; GOMP_atomic_start(); int ok = (*a == *e); if (ok) *a = v; else *e = *a; GOMP_atomic_end(); return ok; } \
  int __tsan_atomic##n##_compare_exchange_weak(volatile T *a, T *e, T v, int mo, int fmo) { return __tsan_atomic##n##_compare_exchange_strong(a, e, v, mo, fmo); }
ATOM(8, uint8_t) ATOM(16, uint16_t) ATOM(32, uint32_t) ATOM(64, uint64_t)
void __tsan_atomic_thread_fence(int mo) { (void)mo; GOMP_atomic_start(); GOMP_atomic_end(); }
void __tsan_atomic_signal_fence(int mo) { (void)mo; }

/* ======================= allocator wrappers ======================= */
void *__wrap_malloc(size_t n) { if (g_in_exec && CUR >= 0 && icb_alloc_points && !TH[CUR].holds) sched_point(7); void *p = __real_malloc(n); if (g_in_exec && p) { sh_clear_range(p, n); if (CUR >= 0) TH[CUR].rdhash = TH[CUR].rdhash * 31 + (uintptr_t)p; } return p; }
void *__wrap_calloc(size_t a, size_t b) { void *p = __real_calloc(a, b); if (g_in_exec && p) sh_clear_range(p, a * b); return p; }
void *__wrap_realloc(void *q, size_t n) { void *p = __real_realloc(q, n); if (g_in_exec && p) sh_clear_range(p, n); return p; }
int __wrap_posix_memalign(void **out, size_t al, size_t n) { if (g_in_exec && CUR >= 0 && icb_alloc_points && !TH[CUR].holds) sched_point(7); int e = __real_posix_memalign(out, al, n); if (g_in_exec && !e && *out) { sh_clear_range(*out, n); if (CUR >= 0) TH[CUR].rdhash = TH[CUR].rdhash * 31 + (uintptr_t)*out; } return e; }
void __wrap_free(void *p) { if (g_in_exec && CUR >= 0 && icb_alloc_points && !TH[CUR].holds) sched_point(8); __real_free(p); }
void __wrap_m4ri_die(const char *fmt, ...) { char m[256]; va_list ap; va_start(ap, fmt); vsnprintf(m, sizeof m, fmt, ap); va_end(ap); verdict(2, "library aborted: %s", m); if (g_in_exec && CUR >= 0) { TH[CUR].state = T_DONE; swapcontext(&TH[CUR].ctx, &SCHED); } _exit(3); }

/* ======================= one execution ======================= */
static void root_thread(void *a) { (void)a; hb_root(); }
static void execute(const uint8_t *prefix, int plen) {
  PREFIX = prefix; PREFLEN = plen;
  SH = mmap(NULL, SHCAP * sizeof(shblock_t), PROT_READ | PROT_WRITE, MAP_PRIVATE | MAP_ANONYMOUS | MAP_NORESERVE, -1, 0);
  memset(TR, 0, sizeof *TR);
  g_in_exec = 1;
  CUR = -1; spawn_thread(-1, root_thread, NULL);
  run_scheduler();
  g_in_exec = 0;
  if (!TR->verdict) { int live = 0; for (int i = 0; i < MAXT; i++) if (TH[i].state != T_UNUSED && TH[i].state != T_DONE) live++; if (live) verdict(3, "deadlock: %d thread(s) never finished", live); }
  if (!TR->verdict && plen > TR->npts) verdict(6, "prefix divergence: prefix has %d decisions, execution only %d", plen, TR->npts);
  if (!TR->verdict) hb_verify();
  TR->digest[MAXT - 1] = sh_used; TR->digest[MAXT - 2] = sh_probes;
}

/* ======================= explorer ======================= */
#define QCAP (1u << 16)
#define MAXPREF 4096
typedef struct { uint16_t len; uint8_t pre; uint8_t dev; uint8_t c[MAXPREF]; } work_t;   /* dev = non-default choices (free or not) in the prefix */   /* pre = preemptions used by this prefix */
typedef struct {
  volatile int lock; volatile uint64_t head, tail; volatile int active; volatile int stop;
  volatile uint64_t schedules, decisions, tree_nodes, races, mismatches, deadlocks, errors, pruned_by_bound, maxpts, accesses, static_writes, crossloc; volatile int maxthreads;
  volatile int nfail; struct { char msg[600]; char scen[160]; int verdict; uint16_t len; uint8_t c[MAXPREF]; } fails[32];
  char samples[8][200]; volatile int nsamples; volatile int deadline_hit; volatile uint64_t dropped; volatile int stalled; volatile uint64_t slow_reruns; volatile uint64_t scen_cut;
} xshared_t;
static xshared_t *X; static work_t *Q;
static void qlock(void) { while (__sync_lock_test_and_set(&X->lock, 1)) usleep(50); }
static void qunlock(void) { __sync_lock_release(&X->lock); }
static int g_bound = 1; static double g_deadline = 0; static double g_scen_deadline = 0; /* per-scenario share of the deadline: every scenario gets explored at least to its first schedules */ static int g_scen = 0; int icb_max_deviations = 1000; int icb_free_sections = 0; unsigned icb_dev_kinds = 0xffffffffu;

static void schedule_str(const uint8_t *c, int n, char *buf, size_t sz) { /* run-length: "0x12,1,0x3" */
  size_t o = 0; int i = 0; buf[0] = 0;
  while (i < n && o + 16 < sz) { int j = i; while (j < n && c[j] == c[i]) j++; if (j - i > 1) o += (size_t)snprintf(buf + o, sz - o, "%dx%d", c[i], j - i); else o += (size_t)snprintf(buf + o, sz - o, "%d", c[i]); i = j; if (i < n) o += (size_t)snprintf(buf + o, sz - o, ","); }
  if (!n) snprintf(buf, sz, "(default)");
}
static void run_one(const work_t *w) {
  fflush(NULL);
  int st = 0, timed_out = 0;
  /* an execution that does not finish within the limit is re-run ALONE with a four times longer limit before it is called a hang
     (the schedule is deterministic; a slow first run is an artefact of machine load) */
  for (int attempt = 0; attempt < 2; attempt++) {
    double limit = attempt ? 1600 : 400; timed_out = 0;
    pid_t p = fork();
    if (p == 0) { execute(w->c, w->len); _exit(0); }
    double t1 = now(); for (;;) { pid_t q = waitpid(p, &st, WNOHANG); if (q == p) break; if (q < 0 && errno != EINTR) break; if (now() - t1 > limit) { kill(p, SIGKILL); waitpid(p, &st, 0); timed_out = 1; break; } usleep(100); }
    if (!timed_out) break;
    __sync_fetch_and_add(&X->slow_reruns, 1);
  }
  if (timed_out) { TR->verdict = 5; snprintf(TR->msg, sizeof TR->msg, "execution did not finish within 1600 s when re-run alone (livelock or hang)"); }
  if (!(WIFEXITED(st) && (WEXITSTATUS(st) == 0 || WEXITSTATUS(st) == 3))) { if (!TR->verdict) { TR->verdict = 2; snprintf(TR->msg, sizeof TR->msg, "execution ended abnormally (status %x)", st); } }
  __sync_fetch_and_add(&X->schedules, 1); __sync_fetch_and_add(&X->decisions, (uint64_t)TR->npts); __sync_fetch_and_add(&X->accesses, TR->accesses);
  if ((uint64_t)TR->npts > X->maxpts) X->maxpts = (uint64_t)TR->npts; if (TR->maxthreads > X->maxthreads) X->maxthreads = TR->maxthreads;
  if (TR->static_writes > X->static_writes) X->static_writes = TR->static_writes; if (TR->cross_thread_locations > X->crossloc) X->crossloc = TR->cross_thread_locations;
  if (TR->verdict) {
    if (TR->verdict == 1) __sync_fetch_and_add(&X->races, 1); else if (TR->verdict == 2) __sync_fetch_and_add(&X->mismatches, 1); else if (TR->verdict == 3) __sync_fetch_and_add(&X->deadlocks, 1); else __sync_fetch_and_add(&X->errors, 1);
    int k = __sync_fetch_and_add(&X->nfail, 1);
    if (k < 32) { snprintf(X->fails[k].msg, sizeof X->fails[k].msg, "%s", TR->msg); snprintf(X->fails[k].scen, 160, "%d:%s", g_scen, hb_name()); X->fails[k].verdict = TR->verdict; int n = TR->npts < MAXPREF ? TR->npts : MAXPREF; X->fails[k].len = (uint16_t)n; memcpy(X->fails[k].c, TR->chosen, (size_t)n); }
    X->stop = 1; /* one counterexample per scenario is enough: the remaining schedules of this scenario are not explored */
    return;
  }
  /* expand alternatives beyond the prefix */
  int pre = w->pre; int n = TR->npts;
  __sync_fetch_and_add(&X->tree_nodes, (uint64_t)(n > w->len ? n - w->len : 0));
  for (int i = w->len; i < n && i < MAXPREF - 1; i++) {
    int cost = pre + (TR->runen[i] ? 1 : 0);
    /* the default continuation itself may have been a forced switch (running thread not enabled): free */
    int devcost = (icb_free_sections && TR->kind[i] == 3) ? 0 : 1; /* section-to-thread assignment decisions may be exempt from the deviation bound */
    if (cost > g_bound || w->dev + devcost > icb_max_deviations || !((icb_dev_kinds >> (TR->kind[i] & 15)) & 1)) { __sync_fetch_and_add(&X->pruned_by_bound, (uint64_t)(TR->nen[i] - 1)); continue; }
    for (int alt = 1; alt < TR->nen[i]; alt++) {
      qlock();
      if (X->tail - X->head >= QCAP) { X->dropped++; qunlock(); continue; }
      work_t *nw = &Q[X->tail % QCAP]; nw->len = (uint16_t)(i + 1); memcpy(nw->c, TR->chosen, (size_t)i); nw->c[i] = (uint8_t)alt; nw->pre = (uint8_t)cost; nw->dev = (uint8_t)(w->dev + devcost); X->tail++;
      qunlock();
    }
    /* choices taken by default never cost a preemption: choice 0 is "keep running" or a forced switch */
  }
}
static void worker(void) {
  for (;;) {
    if (X->stop) return;
    if (g_deadline > 0 && now() > g_deadline) { X->deadline_hit = 1; X->stop = 1; return; }
    if (g_scen_deadline > 0 && now() > g_scen_deadline) { X->deadline_hit = 1; X->scen_cut++; X->stop = 1; return; }
    qlock();
    if (X->head == X->tail) { int act = X->active; qunlock(); if (act == 0) return;
      { static double idle_since = 0; static uint64_t seen = 0; if (seen != X->schedules || idle_since == 0) { seen = X->schedules; idle_since = now(); } else if (now() - idle_since > 450) { X->stalled = 1; X->stop = 1; return; } }
      usleep(200); continue; }
    work_t w = Q[X->head % QCAP]; X->head++; __sync_fetch_and_add(&X->active, 1);
    qunlock();
    run_one(&w);
    if (X->nsamples < 8 && (X->schedules % 97 == 1)) { int k = __sync_fetch_and_add(&X->nsamples, 1); if (k < 8) { char b[160]; schedule_str(w.c, w.len, b, sizeof b); snprintf(X->samples[k], 200, "%s: schedule [%s] -> %d decisions, verdict %d", hb_name(), b, TR->npts, TR->verdict); } }
    __sync_fetch_and_sub(&X->active, 1);
  }
}

static const char *arg(int argc, char **argv, const char *name, const char *d) { size_t n = strlen(name); for (int i = 1; i < argc; i++) if (!strncmp(argv[i], "--", 2) && !strncmp(argv[i] + 2, name, n) && argv[i][2 + n] == '=') return argv[i] + 3 + n; return d; }
static void jstr(FILE *f, const char *s) { fputc('"', f); for (; *s; s++) { unsigned char c = (unsigned char)*s; if (c == '"' || c == '\\') { fputc('\\', f); fputc(c, f); } else if (c < 32) fprintf(f, "\\u%04x", c); else fputc(c, f); } fputc('"', f); }

int main(int argc, char **argv) {
  double t0 = now();
  g_bound = atoi(arg(argc, argv, "bound", "1")); int nw = atoi(arg(argc, argv, "workers", "16")); int deadline = atoi(arg(argc, argv, "deadline", "0"));
  icb_team_size = atoi(arg(argc, argv, "team", "4")); icb_alloc_points = atoi(arg(argc, argv, "alloc-points", "0"));
  const char *outp = arg(argc, argv, "out", NULL); const char *tier = arg(argc, argv, "tier", "quick"); const char *replay = arg(argc, argv, "replay", NULL);
  if (deadline > 0) g_deadline = t0 + deadline;
  hb_args(argc, argv);
  TR = mmap(NULL, sizeof(trace_t), PROT_READ | PROT_WRITE, MAP_SHARED | MAP_ANONYMOUS, -1, 0);
  X = mmap(NULL, sizeof(xshared_t), PROT_READ | PROT_WRITE, MAP_SHARED | MAP_ANONYMOUS, -1, 0);
  Q = mmap(NULL, sizeof(work_t) * QCAP, PROT_READ | PROT_WRITE, MAP_SHARED | MAP_ANONYMOUS | MAP_NORESERVE, -1, 0);
  int nscen = hb_nscenarios(); int only = atoi(arg(argc, argv, "scenario", "-1"));
  if (replay) {
    int sidx = atoi(replay); const char *q = strchr(replay, ':'); q = q ? q + 1 : "";
    hb_select(sidx); hb_prepare();
    work_t w; memset(&w, 0, sizeof w); while (*q && w.len < MAXPREF) { int v = (int)strtol(q, (char **)&q, 10), rep = 1; if (*q == 'x') { q++; rep = (int)strtol(q, (char **)&q, 10); } while (rep-- > 0 && w.len < MAXPREF) w.c[w.len++] = (uint8_t)v; if (*q == ',') q++; }
    int r[2]; char m[2][600];
    for (int k = 0; k < 2; k++) { pid_t p = fork(); if (p == 0) { execute(w.c, w.len); _exit(0); } int st; waitpid(p, &st, 0); r[k] = TR->verdict; snprintf(m[k], 600, "%s", TR->msg); }
    if (r[0] != r[1] || strcmp(m[0], m[1])) { printf("HARNESS-ERROR: replay not deterministic (%d '%s' vs %d '%s')\n", r[0], m[0], r[1], m[1]); return 2; }
    printf("%s %s verdict=%d %s\n", r[0] ? "FAIL" : "ok", hb_name(), r[0], m[0]);
    { int kc[16] = {0}; for (int i = 0; i < TR->npts; i++) kc[TR->kind[i] & 15]++; printf("shadow blocks=%llu of %llu, probes=%llu; ", (unsigned long long)TR->digest[MAXT - 1], (unsigned long long)SHCAP, (unsigned long long)TR->digest[MAXT - 2]); printf("decisions=%d by kind: start=%d fork=%d join=%d sections=%d static-write=%d static-read=%d lock=%d malloc=%d free=%d thread-end=%d; alloc_points=%d max_dev=%d\n", TR->npts, kc[0], kc[1], kc[2], kc[3], kc[4], kc[5], kc[6], kc[7], kc[8], kc[9], icb_alloc_points, icb_max_deviations); }
    return r[0] ? 1 : 0;
  }
  uint64_t nscen_done = 0; uint64_t g_scen_cut_count = 0;
  for (int sc = 0; sc < nscen; sc++) {
    if (only >= 0 && sc != only) continue;
    if (g_deadline > 0 && now() > g_deadline) { X->deadline_hit = 1; break; }
    if (g_deadline > 0) { int left = 0; for (int q = sc; q < nscen; q++) if (only < 0 || q == only) left++; double rem = g_deadline - now(); double share = rem / (left > 0 ? left : 1) * 6.0; if (share < 60) share = 60; g_scen_deadline = now() + share; } /* a scenario may use up to three times its even share; what it does not use goes to the later ones */
    hb_select(sc); g_scen = sc;
    hb_prepare(); /* operands + sequential reference digests, before any fork */
    X->head = 0; X->tail = 0; X->active = 0; X->stop = 0;
    memset(&Q[0], 0, sizeof(work_t)); X->tail = 1; /* seed: the default schedule */
    pid_t pids[64];
    for (int i = 0; i < nw; i++) { pids[i] = fork(); if (pids[i] == 0) { TR = mmap(NULL, sizeof(trace_t), PROT_READ | PROT_WRITE, MAP_SHARED | MAP_ANONYMOUS, -1, 0); worker(); _exit(0); } }
    for (int left = nw; left > 0; left--) { int st; pid_t dp = waitpid(-1, &st, 0); int i = 0; for (int q = 0; q < nw; q++) if (pids[q] == dp) i = q; (void)i; if (!(WIFEXITED(st) && WEXITSTATUS(st) == 0)) { fprintf(stderr, "explorer worker %d ended abnormally: status %x\n", (int)dp, st); X->stop = 1; X->errors++; int k = __sync_fetch_and_add(&X->nfail, 1); if (k < 32) { snprintf(X->fails[k].msg, 600, "explorer worker ended abnormally (status %x)", st); X->fails[k].verdict = 4; X->fails[k].len = 0; snprintf(X->fails[k].scen, 160, "%d:%s", sc, hb_name()); } } }
    nscen_done++; if (X->scen_cut) { g_scen_cut_count++; X->scen_cut = 0; }
    if (getenv("ICB_VERBOSE")) fprintf(stderr, "scenario %d %s: schedules so far %llu, t=%.1f\n", sc, hb_name(), (unsigned long long)X->schedules, now() - t0);
  }
  FILE *f = outp ? fopen(outp, "w") : stdout;
  fprintf(f, "{\"property\":\"%s\",\"tier\":\"%s\",\"seed\":0,\"workers\":%d,\"total_cases\":%llu,\"executed\":%llu,\"distinct_nontrivial\":%llu,\"set_saturated\":0,\"deadline_hit\":%d,\"crashes\":0,\"hangs\":0,\"selfcheck\":0,\"nfail_total\":%d,\"wall_s\":%.3f,",
          hb_property(), tier, nw, (unsigned long long)X->schedules, (unsigned long long)X->schedules, (unsigned long long)X->schedules, X->deadline_hit || X->dropped || X->stalled ? 1 : 0, X->nfail, now() - t0);
  fprintf(f, "\"counters\":{\"states\":%llu,\"transitions\":%llu,\"traces_validated_against_impl\":%llu,\"schedules\":%llu,\"preemption_bound\":%d,\"alternatives_beyond_bound\":%llu,\"max_decisions_per_execution\":%llu,\"instrumented_accesses\":%llu,\"static_writes_max\":%llu,\"cross_thread_reads_max\":%llu,\"max_live_threads\":%d,\"races\":%llu,\"digest_mismatches\":%llu,\"deadlocks\":%llu,\"queue_dropped\":%llu,\"slow_executions_rerun\":%llu,\"scenarios_cut_by_their_time_share\":%llu,\"scenarios\":%llu},",
          (unsigned long long)(X->tree_nodes + 1), (unsigned long long)X->decisions, (unsigned long long)X->schedules, (unsigned long long)X->schedules, g_bound, (unsigned long long)X->pruned_by_bound, (unsigned long long)X->maxpts, (unsigned long long)X->accesses, (unsigned long long)X->static_writes, (unsigned long long)X->crossloc, X->maxthreads, (unsigned long long)X->races, (unsigned long long)X->mismatches, (unsigned long long)X->deadlocks, (unsigned long long)X->dropped, (unsigned long long)X->slow_reruns, (unsigned long long)(X->scen_cut ? 1 : 0) * 0 + (unsigned long long)g_scen_cut_count, (unsigned long long)nscen_done);
  fprintf(f, "\"samples\":["); int ns = X->nsamples > 8 ? 8 : X->nsamples; for (int i = 0; i < ns; i++) { if (i) fputc(',', f); jstr(f, X->samples[i]); }
  if (!ns) { char b[200]; snprintf(b, sizeof b, "%s: default schedule", hb_name()); jstr(f, b); }
  fprintf(f, "],\"failures\":["); int nf = X->nfail > 32 ? 32 : X->nfail;
  for (int i = 0; i < nf; i++) { char b[MAXPREF * 4]; schedule_str(X->fails[i].c, X->fails[i].len, b, sizeof b); char id[MAXPREF * 4 + 400]; snprintf(id, sizeof id, "%s|schedule=%s", X->fails[i].scen, b);
    static const char *vn[] = {"ok", "data-race", "result-differs-from-sequential", "deadlock", "harness-error", "horizon", "prefix-divergence"};
    if (i) fputc(',', f); fprintf(f, "{\"index\":%d,\"id\":", i); jstr(f, id); fprintf(f, ",\"sig\":"); { char sg[200]; snprintf(sg, sizeof sg, "%s", strchr(X->fails[i].scen, ':') ? strchr(X->fails[i].scen, ':') + 1 : X->fails[i].scen); jstr(f, sg); } fprintf(f, ",\"clause\":"); jstr(f, vn[X->fails[i].verdict < 7 ? X->fails[i].verdict : 4]); fprintf(f, ",\"msg\":"); jstr(f, X->fails[i].msg); fputc('}', f); }
  fprintf(f, "]}\n");
  if (outp) fclose(f);
  return 0;
}
