/* interface between the ICB engine (icb.c) and a harness body */
#ifndef ICB_H
#define ICB_H
#include <stdint.h>
/* provided by the harness */
void hb_args(int argc, char **argv);
int hb_nscenarios(void);
void hb_select(int s);
void hb_prepare(void);          /* operands and reference digests; runs once before any fork */
void hb_root(void);             /* body of logical thread 0 */
void hb_verify(void);           /* after a complete execution: compare recorded digests with the references (icb_fail on mismatch) */
const char *hb_name(void);
const char *hb_property(void);
/* provided by the engine */
int icb_spawn(void (*fn)(void *), void *arg);
void icb_join_all(void);
void icb_report_digest(uint64_t d);
void icb_fail(int verdict, const char *msg);
int icb_self(void);
extern int icb_nested_size, icb_thread_limit;
extern int icb_team_size, icb_alloc_points, icb_max_deviations, icb_free_sections; extern unsigned icb_dev_kinds;
#endif
