/* Auxiliary free-running pass for C15: the same menu bodies on real pthreads under the REAL ThreadSanitizer runtime.
 * This is sampling (the OS schedules), not part of the exhaustive claim: a cooperative scheduler's hand-offs must never be
 * the only thing that hides a race.  A report here is escalated only if ICB's deterministic detector shows the same pair. */
#define _GNU_SOURCE
#include "ops.h"
#include <pthread.h>
#include <unistd.h>
#include <sys/wait.h>
#include <sys/mman.h>
#include <sys/time.h>
const char *prop_id = "C15";
long aw_live, aw_count, aw_fail_at, aw_fill_at, aw_failed_site; int aw_tracking, aw_fill_mode, aw_die_entered; char aw_die_msg[256];
void aw_reset(void) {}
extern void *__real_malloc(size_t); extern void *__real_calloc(size_t, size_t); extern void __real_free(void *);
void *__wrap_malloc(size_t n) { return __real_malloc(n); }
void *__wrap_calloc(size_t a, size_t b) { return __real_calloc(a, b); }
void __wrap_free(void *p) { __real_free(p); }
void prop_enumerate(void) {}
static const struct { const char *op; int shape; } MENU[] = {
  {"mzd_mul", 8}, {"mzd_mul_m4rm", 3}, {"mzd_mul_naive", 1}, {"mzd_echelonize_m4ri", 6}, {"mzd_ple", 3}, {"mzd_pluq", 2}, {"mzd_solve_left", 1},
  {"mzd_kernel_left_pluq", 2}, {"mzd_transpose(NULL)", 4}, {"mzd_trsm_upper_left", 4}, {"mzd_inv_m4ri(NULL)", 3}, {"mzd_addmul", 4}, {"mzd_apply_p_right", 4}, {"mzd_echelonize_pluq", 7}};
#define NMENU (int)(sizeof(MENU) / sizeof(MENU[0]))
static const vop *find_op(const char *name) { for (int i = 0; i < NOPS; i++) if (!strcmp(OPS[i].name, name)) return &OPS[i]; _exit(2); }
static uint64_t run_digest(const vop *o, const oshape *s, int data) {
  mzd_t *m[3] = {0, 0, 0}, *res = NULL;
  for (int k = 0; k < o->nmat; k++) { pm *c = op_content(o, s, k, data); m[k] = mzd_from_pm(c); pm_free(c); }
  uint64_t h = h64(0x15, o->run(m, s, &res));
  for (int k = 0; k < o->nmat; k++) { pm *f = pm_from_mzd(m[k]); h = h64(h, pm_hash(f)); pm_free(f); mzd_free(m[k]); }
  if (res) { pm *f = pm_from_mzd(res); h = h64(h, pm_hash(f)); pm_free(f); mzd_free(res); }
  return h;
}
static uint64_t REF[NMENU][2]; static int NT = 8, ROUNDS = 3; static volatile int BAD = 0;
static pthread_barrier_t bar;
static void *tmain(void *a) {
  int t = (int)(intptr_t)a;
  for (int r = 0; r < ROUNDS; r++) {
    pthread_barrier_wait(&bar); /* all threads enter the library at the same moment */
    for (int q = 0; q < NMENU; q++) { int oi = (q + t * 3 + r) % NMENU; const vop *o = find_op(MENU[oi].op); uint64_t d = run_digest(o, &o->shapes[MENU[oi].shape % o->nshapes], t & 1); if (d != REF[oi][t & 1]) BAD = 1 + oi; }
  }
  return NULL;
}
static double now(void) { struct timeval tv; gettimeofday(&tv, NULL); return tv.tv_sec + tv.tv_usec * 1e-6; }
int main(int argc, char **argv) {
  double t0 = now(); const char *outp = NULL, *tier = "quick";
  for (int i = 1; i < argc; i++) { if (!strncmp(argv[i], "--out=", 6)) outp = argv[i] + 6; if (!strncmp(argv[i], "--threads=", 10)) NT = atoi(argv[i] + 10); if (!strcmp(argv[i], "--tier=thorough")) { tier = "thorough"; ROUNDS = 10; } }
  { /* reference digests in a child: the image that starts the threads stays cold (no lazily built state exists yet) */
    uint64_t (*shm)[2] = mmap(NULL, sizeof REF, PROT_READ | PROT_WRITE, MAP_SHARED | MAP_ANONYMOUS, -1, 0);
    pid_t rp = fork();
    if (rp == 0) { for (int q = 0; q < NMENU; q++) for (int d = 0; d < 2; d++) { const vop *o = find_op(MENU[q].op); shm[q][d] = run_digest(o, &o->shapes[MENU[q].shape % o->nshapes], d); } _exit(0); }
    int rst; waitpid(rp, &rst, 0); if (!(WIFEXITED(rst) && WEXITSTATUS(rst) == 0)) { fprintf(stderr, "HARNESS-ERROR: reference run failed\n"); return 2; }
    memcpy(REF, shm, sizeof REF);
  }
  /* run the threads in a child so that a TSan report (exit 66) is observable */
  int status = 0, nfail = 0; char msg[300] = "";
  for (int nt = 2; nt <= NT; nt *= 2) {
    pid_t p = fork();
    if (p == 0) { pthread_t th[64]; pthread_barrier_init(&bar, NULL, (unsigned)nt); for (int t = 0; t < nt; t++) pthread_create(&th[t], NULL, tmain, (void *)(intptr_t)t); for (int t = 0; t < nt; t++) pthread_join(th[t], NULL); _exit(BAD ? 3 : 0); }
    waitpid(p, &status, 0);
    if (!(WIFEXITED(status) && WEXITSTATUS(status) == 0)) { nfail++; snprintf(msg, sizeof msg, "%d pthreads: %s (status %x)", nt, WIFEXITED(status) && WEXITSTATUS(status) == 66 ? "ThreadSanitizer reported a data race" : WIFEXITED(status) && WEXITSTATUS(status) == 3 ? "a thread's result differs from the sequential one" : "abnormal end", status); break; }
  }
  FILE *f = outp ? fopen(outp, "w") : stdout;
  fprintf(f, "{\"property\":\"C15\",\"tier\":\"%s\",\"seed\":0,\"workers\":%d,\"total_cases\":%d,\"executed\":%d,\"distinct_nontrivial\":%d,\"set_saturated\":0,\"deadline_hit\":0,\"crashes\":0,\"hangs\":0,\"selfcheck\":0,\"nfail_total\":%d,\"wall_s\":%.3f,\"counters\":{\"free_running_tsan_thread_runs\":%d},\"samples\":[\"free-running pthreads under the real TSan runtime, thread counts 2..%d, %d rounds of the %d-entry menu\"],\"failures\":[",
          tier, NT, 4, 4, 0, nfail, now() - t0, 4, NT, ROUNDS, NMENU);
  if (nfail) fprintf(f, "{\"index\":0,\"id\":\"free-running-tsan\",\"sig\":\"free-running-tsan\",\"clause\":\"tsan-report\",\"msg\":\"%s\"}", msg);
  fprintf(f, "]}\n");
  if (outp) fclose(f);
  return 0;
}
