/* shared by the ICB harness bodies: stubs for symbols that vx.c expects from the BEX runner */
#include "ops.h"
#include "icb.h"
long aw_live, aw_count, aw_fail_at, aw_fill_at, aw_failed_site; int aw_tracking, aw_fill_mode, aw_die_entered; char aw_die_msg[256];
void aw_reset(void) {}
void prop_enumerate(void) {}
static const vop *find_op(const char *name) { for (int i = 0; i < NOPS; i++) if (!strcmp(OPS[i].name, name)) return &OPS[i]; fprintf(stderr, "HARNESS-ERROR: op %s not in registry\n", name); _exit(2); }
/* run op on fresh owned operands, return digest of every observable */
static uint64_t run_digest(const vop *o, const oshape *s, int data) {
  mzd_t *m[3] = {0, 0, 0}, *res = NULL;
  for (int k = 0; k < o->nmat; k++) { pm *c = op_content(o, s, k, data); m[k] = mzd_from_pm(c); pm_free(c); }
  uint64_t h = h64(0x15, o->run(m, s, &res));
  for (int k = 0; k < o->nmat; k++) { pm *f = pm_from_mzd(m[k]); h = h64(h, pm_hash(f)); pm_free(f); mzd_free(m[k]); }
  if (res) { pm *f = pm_from_mzd(res); h = h64(h, pm_hash(f)); pm_free(f); mzd_free(res); }
  return h;
}
