/* Self-test of the ICB engine's mini-GOMP runtime and race detector: tiny hand-written "OpenMP" programs (direct GOMP_* calls and
   explicit access reports) with a KNOWN verdict each.  Run by bin/selftest_icb; not a property check. */
#include "h_common.h"
const char *prop_id = "SELFTEST";
extern void GOMP_parallel(void (*fn)(void *), void *data, unsigned num_threads, unsigned flags);
extern void GOMP_barrier(void);
extern _Bool GOMP_loop_nonmonotonic_dynamic_start(long, long, long, long, long *, long *);
extern _Bool GOMP_loop_nonmonotonic_dynamic_next(long *, long *);
extern void GOMP_loop_end(void); extern void GOMP_loop_end_nowait(void);
extern _Bool GOMP_single_start(void);
extern void GOMP_critical_start(void); extern void GOMP_critical_end(void);
extern uint64_t __tsan_atomic64_fetch_add(volatile uint64_t *, uint64_t, int);
extern void __tsan_write8(void *); extern void __tsan_read8(void *);
extern int omp_get_thread_num(void); extern int omp_get_num_threads(void);
#define NS 10
static const char *SN[NS] = {"barrier-orders-accesses", "missing-barrier", "dynamic-loop-partitions-iterations", "single-runs-once", "atomic-counter", "plain-shared-counter",
                             "barrier-with-absent-member", "loop-end-is-a-barrier", "unnamed-critical-counter", "nowait-loop-then-read"};
/* expected verdict: 0 ok, 1 data race, 3 deadlock */
static const int EXPECT[NS] = {0, 1, 0, 0, 0, 1, 3, 0, 0, 1};
static int cur; static char NAME[120];
static uint64_t *X, *CNT; static volatile uint64_t CTR; static int FAILED;
static void W(uint64_t *p, uint64_t v) { __tsan_write8(p); *p = v; }
static uint64_t R(uint64_t *p) { __tsan_read8(p); return *p; }
static void body(void *a) { (void)a;
  int r = omp_get_thread_num(), n = omp_get_num_threads(); long s, e;
  switch (cur) {
  case 0: W(&X[r], (uint64_t)r + 1); GOMP_barrier(); if (R(&X[(r + 1) % n]) != (uint64_t)((r + 1) % n) + 1) FAILED = 1; break;
  case 1: W(&X[r], (uint64_t)r + 1); (void)R(&X[(r + 1) % n]); break;
  case 2: if (GOMP_loop_nonmonotonic_dynamic_start(0, 11, 1, 2, &s, &e)) do { for (long i = s; i < e; i++) W(&CNT[i], R(&CNT[i]) + 1); } while (GOMP_loop_nonmonotonic_dynamic_next(&s, &e)); GOMP_loop_end_nowait(); break;
  case 3: if (GOMP_single_start()) W(&X[0], R(&X[0]) + 1); GOMP_barrier(); if (R(&X[0]) != 1) FAILED = 1; break;
  case 4: __tsan_atomic64_fetch_add(&CTR, 1, 5); break;
  case 5: W(&X[0], R(&X[0]) + 1); break;
  case 6: if (r != 0) GOMP_barrier(); break;
  case 7: if (GOMP_loop_nonmonotonic_dynamic_start(0, n, 1, 1, &s, &e)) do { for (long i = s; i < e; i++) W(&X[i], 7); } while (GOMP_loop_nonmonotonic_dynamic_next(&s, &e)); GOMP_loop_end();
          for (int i = 0; i < n; i++) if (R(&X[i]) != 7) FAILED = 1; break;
  case 8: GOMP_critical_start(); W(&X[0], R(&X[0]) + 1); GOMP_critical_end(); break;
  case 9: if (GOMP_loop_nonmonotonic_dynamic_start(0, n, 1, 1, &s, &e)) do { for (long i = s; i < e; i++) W(&X[i], 7); } while (GOMP_loop_nonmonotonic_dynamic_next(&s, &e)); GOMP_loop_end_nowait();
          for (int i = 0; i < n; i++) (void)R(&X[i]); break;
  }
}
void hb_args(int argc, char **argv) { (void)argc; (void)argv; }
int hb_nscenarios(void) { return NS * 2; }
void hb_select(int s) { cur = s % NS; icb_team_size = s < NS ? 2 : 3; icb_nested_size = 1; icb_max_deviations = 1000; icb_free_sections = 0; icb_dev_kinds = 0xffffffffu; snprintf(NAME, sizeof NAME, "%s|threads=%d|expect=%d", SN[cur], icb_team_size, EXPECT[cur]); }
const char *hb_name(void) { return NAME; }
const char *hb_property(void) { return "SELFTEST"; }
void hb_prepare(void) {}
void hb_root(void) {
  X = malloc(64 * 8); CNT = malloc(64 * 8); memset(X, 0, 64 * 8); memset(CNT, 0, 64 * 8); CTR = 0; FAILED = 0;
  GOMP_parallel(body, NULL, 0, 0);
  uint64_t d = 1;
  if (cur == 2) for (int i = 0; i < 11; i++) if (CNT[i] != 1) d = 2;
  if (cur == 4 && CTR != (uint64_t)icb_team_size) d = 2;
  if (cur == 8 && X[0] != (uint64_t)icb_team_size) d = 2;
  if (FAILED) d = 2;
  free(X); free(CNT);
  icb_report_digest(d);
  if (d != 1) icb_fail(2, "selftest program computed a wrong value");
}
void hb_verify(void) {}
