/* FSX: fork-snapshot explicit-state model checker for the allocation machinery of m4ri (C14).
 *
 * A state is the live process.  A transition forks, applies ONE real call (mzd_init / mzd_init_window / mzd_free, or a
 * block of frees of start-state headers) in the child, evaluates the invariants, checks the harness-side MODEL of the block
 * cache against the real m4ri_mmc_cache (conformance on every transition), computes a canonical key of the REAL data
 * structures and inserts it into a shared visited table (key -> largest remaining depth budget seen).  New (or better-budget)
 * states recurse.  The statics of mzd.c are read through a unity include (no source hook for reading). */
#define _GNU_SOURCE
#include <m4ri/m4ri_config.h>
#include <m4ri/mzd.c> /* unity include: mzd_cache, current_cache, mzd_t_cache_t, __M4RI_MZD_T_CACHE_MAX */
#include <m4ri/mmc.h>
#include <stdarg.h>
#include <unistd.h>
#include <signal.h>
#include <errno.h>
#include <sys/mman.h>
#include <sys/wait.h>
#include <sys/time.h>
#ifdef VX_COV /* diagnostic coverage builds (bin/coverage): flush the profile before every _exit */
extern int __llvm_profile_write_file(void);
extern void __llvm_profile_set_filename(const char *);
static void cov_exit(int c) { static char b[400]; const char *d = getenv("VX_COV_DIR"); snprintf(b, sizeof b, "%s/w%d.profraw", d ? d : "/tmp", (int)getpid()); __llvm_profile_set_filename(b); __llvm_profile_write_file(); _exit(c); }
#define _exit cov_exit
#endif

#if __M4RI_ENABLE_MMC
extern mmb_t m4ri_mmc_cache[__M4RI_MMC_NBLOCKS];
#endif
extern long aw_live, aw_count, aw_fill_at; extern int aw_tracking, aw_fill_mode;
extern void *aw_freed[64]; extern long aw_nfreed; extern void *aw_alloced[64]; extern long aw_nalloced;
void vx_note_die(const char *m) { (void)m; }
void vx_note_die_fc(const char *m) { (void)m; }
extern void *__real_malloc(size_t); extern void __real_free(void *);

/* ---------------- shared bookkeeping ---------------- */
#define MAXF 256
typedef struct { char path[400]; char clause[64]; char msg[400]; } frec;
typedef struct {
  volatile uint64_t states, transitions, inv_evals, final_checks, evictions, cache_hits, hdr_blocks_new, hdr_blocks_unlinked, hdr_malloc, pruned, crashes;
  volatile int maxdepth; volatile uint64_t nfail; frec fails[MAXF];
  volatile int deadline_hit; char samples[12][200]; volatile int nsamples;
  uint64_t cap; /* followed by table: key (0 = empty), budget */
} shared_t;
static shared_t *S; static volatile uint64_t *TK; static volatile uint8_t *TB;
static double now(void) { struct timeval tv; gettimeofday(&tv, NULL); return tv.tv_sec + tv.tv_usec * 1e-6; }
static double g_deadline_at = 0;

/* returns 1 if the state must be expanded with this remaining budget */
static int visit(uint64_t key, int budget, int *is_new) {
  if (!key) key = 1;
  uint64_t h = key; h ^= h >> 33; h *= 0xff51afd7ed558ccdULL; h ^= h >> 33;
  *is_new = 0;
  for (uint64_t i = 0; i < S->cap; i++) {
    uint64_t k = (h + i) & (S->cap - 1);
    uint64_t v = TK[k];
    if (v == 0) { if (__sync_bool_compare_and_swap(&TK[k], 0, key)) { TB[k] = (uint8_t)budget; *is_new = 1; return 1; } v = TK[k]; }
    if (v == key) {
      for (;;) { uint8_t b = TB[k]; if (b >= (uint8_t)budget) return 0; if (__sync_bool_compare_and_swap(&TB[k], b, (uint8_t)budget)) return 1; }
    }
  }
  fprintf(stderr, "HARNESS-ERROR: visited table full\n"); _exit(2);
}

/* ---------------- harness-side state ---------------- */
typedef struct { mzd_t *h; int kind, cls, parent, alive, parent_dead; uint64_t canary; size_t bytes; } handle;
#define MAXH 12
static handle H[MAXH]; static int nH = 0;
static mzd_t *START[300]; static int start_alive[300]; static int nstart = 0;
static int MAXLIVE = 4;
/* model of the block cache */
#if __M4RI_ENABLE_MMC
static struct { size_t size; void *data; } MS[__M4RI_MMC_NBLOCKS]; static int MJ = 0;
#endif
static char PATH[400]; static int PLEN = 0;
static const char *g_errnote = "";

static void fail(const char *clause, const char *fmt, ...) {
  uint64_t k = __sync_fetch_and_add(&S->nfail, 1);
  if (k >= MAXF) return;
  frec *f = &S->fails[k];
  snprintf(f->path, sizeof f->path, "%s", PATH); snprintf(f->clause, sizeof f->clause, "%s", clause);
  va_list ap; va_start(ap, fmt); vsnprintf(f->msg, sizeof f->msg, fmt, ap); va_end(ap);
}

/* size classes */
typedef struct { int r, c; } cls_t;
static cls_t CLS[8]; static int ncls = 0;
static void classes(void) {
  CLS[ncls++] = (cls_t){1, 64};    /* 16 bytes */
  CLS[ncls++] = (cls_t){2, 64};    /* 32 bytes */
  CLS[ncls++] = (cls_t){0, 5};     /* zero area */
  CLS[ncls++] = (cls_t){5, 0};     /* zero area */
#if __M4RI_ENABLE_MMC
  /* exactly at and just above the cache threshold */
  long words = (long)__M4RI_MMC_THRESHOLD / 8; int rs = 64; /* rowstride 64 words = 4096 columns */
  if (words / rs >= 1 && words / rs < 4000) { CLS[ncls++] = (cls_t){(int)(words / rs), 64 * rs}; CLS[ncls++] = (cls_t){(int)(words / rs) + 1, 64 * rs}; }
#endif
}
static uint64_t canary_word(uint64_t c, size_t i) { uint64_t x = c + i * 0x9E3779B97F4A7C15ULL; x ^= x >> 29; x *= 0xBF58476D1CE4E5B9ULL; x ^= x >> 32; return x | 1; }
static void write_canary(handle *q) { uint64_t *d = (uint64_t *)q->h->data; size_t n = q->bytes / 8; for (size_t i = 0; i < n; i++) d[i] = canary_word(q->canary, i); }
static int check_canary(const handle *q) { const uint64_t *d = (const uint64_t *)q->h->data; size_t n = q->bytes / 8; for (size_t i = 0; i < n; i++) if (d[i] != canary_word(q->canary, i)) return 0; return 1; }

static int header_block_index(const mzd_t *h, int *entry) {
#if __M4RI_ENABLE_MZD_CACHE
  int bi = 0;
  for (mzd_t_cache_t *c = &mzd_cache; c; c = c->next, bi++) { size_t e = (size_t)(h - c->mzd); if (e < 64) { *entry = (int)e; return bi; } }
#endif
  *entry = -1; return -1;
}

static void check_model(const char *after) {
#if __M4RI_ENABLE_MMC
  for (int i = 0; i < __M4RI_MMC_NBLOCKS; i++) {
    if (m4ri_mmc_cache[i].size != MS[i].size || (MS[i].size && m4ri_mmc_cache[i].data != MS[i].data)) { fail("model-conformance", "after %s: block-cache slot %d holds (size %zu, %p), the model predicts (size %zu, %p)", after, i, m4ri_mmc_cache[i].size, m4ri_mmc_cache[i].data, MS[i].size, MS[i].data); return; }
  }
#endif
  (void)after;
}

static void check_all_live(const char *after) {
  S->inv_evals++;
  for (int i = 0; i < nH; i++) if (H[i].alive && H[i].kind == 0 && H[i].bytes) if (!check_canary(&H[i])) { fail("live-matrix-corrupted", "after %s: live matrix (handle %d, class %d) lost its contents", after, i, H[i].cls); return; }
  /* header cache structure: every live header that lies in a block has its bit set; blocks are linked consistently */
#if __M4RI_ENABLE_MZD_CACHE
  int nb = 0, cur_seen = 0;
  for (mzd_t_cache_t *c = &mzd_cache; c; c = c->next) { nb++; if (c == current_cache) cur_seen = 1; if (c->next && c->next->prev != c) { fail("header-cache-links", "after %s: block %d: next->prev does not point back", after, nb - 1); return; } if (nb > 64) { fail("header-cache-links", "after %s: block list does not terminate", after); return; } }
  if (!cur_seen) { fail("header-cache-links", "after %s: current_cache is not a member of the block list (dangling)", after); return; }
  for (int i = 0; i < nH; i++) if (H[i].alive) { int e, b = header_block_index(H[i].h, &e); if (b >= 0) { mzd_t_cache_t *c = &mzd_cache; for (int q = 0; q < b; q++) c = c->next; if (!((c->used >> e) & 1)) { fail("header-reuse", "after %s: header of live handle %d is marked free in its block", after, i); return; } } }
  for (int i = 0; i < nstart; i++) if (start_alive[i]) { int e, b = header_block_index(START[i], &e); if (b >= 0) { mzd_t_cache_t *c = &mzd_cache; for (int q = 0; q < b; q++) c = c->next; if (!((c->used >> e) & 1)) { fail("header-reuse", "after %s: header of a live start matrix is marked free", after); return; } } }
#endif
}

static int ranges_overlap(const void *a, size_t an, const void *b, size_t bn) { const char *x = a, *y = b; return an && bn && x < y + bn && y < x + an; }

/* ---------------- transitions ---------------- */
enum { OP_INIT, OP_WIN, OP_FREE, OP_FREEBLOCK, OP_FREESTART, OP_CLEANUP };
static void do_init(int cls) {
  cls_t k = CLS[cls]; char nm[48]; snprintf(nm, sizeof nm, "INIT(%dx%d)", k.r, k.c);
  int rowstride = ((k.c + 63) / 64); if (rowstride & 1) rowstride++;
  size_t bytes = (k.r && k.c) ? (size_t)k.r * (size_t)rowstride * 8 : 0;
  void *predicted = NULL; int hit = -1;
#if __M4RI_ENABLE_MMC
  if (bytes && bytes <= (size_t)__M4RI_MMC_THRESHOLD) for (int i = 0; i < __M4RI_MMC_NBLOCKS; i++) if (MS[i].size == bytes) { hit = i; predicted = MS[i].data; break; }
#endif
  long na0 = aw_nalloced;
  mzd_t *A = mzd_init(k.r, k.c);
  handle *q = &H[nH]; memset(q, 0, sizeof *q); q->h = A; q->kind = 0; q->cls = cls; q->parent = -1; q->alive = 1; q->bytes = bytes; q->canary = 0xC14 + (uint64_t)PLEN * 7919 + (uint64_t)nH * 104729 + (uint64_t)cls;
  /* I1: fresh matrix entirely zero */
  if (bytes) { const uint64_t *d = (const uint64_t *)A->data; for (size_t i = 0; i < bytes / 8; i++) if (d[i]) { fail("fresh-not-zero", "%s: word %zu of the new matrix is %016llx (block %s)", nm, i, (unsigned long long)d[i], hit >= 0 ? "recycled from the block cache" : "from the allocator"); break; } }
  else if (A->data != NULL) fail("zero-area-data", "%s: zero-area matrix has a data pointer", nm);
  /* I2: disjoint from every live matrix */
  for (int i = 0; i < nH; i++) if (H[i].alive) { if (H[i].h == A) fail("header-shared", "%s: header address equals that of live handle %d", nm, i); if (H[i].kind == 0 && ranges_overlap(A->data, bytes, H[i].h->data, H[i].bytes)) fail("storage-shared", "%s: data block overlaps the block of live handle %d", nm, i); }
  for (int i = 0; i < nstart; i++) if (start_alive[i] && START[i] == A) fail("header-shared", "%s: header address equals that of a live start matrix", nm);
  /* model conformance */
#if __M4RI_ENABLE_MMC
  if (hit >= 0) { if (A->data != predicted) fail("model-conformance", "%s: the model predicts the cached block %p (slot %d) but the matrix got %p", nm, predicted, hit, (void *)A->data); MS[hit].size = 0; MS[hit].data = NULL; S->cache_hits++; }
  else if (bytes) { int fresh = 0; for (long i = na0; i < aw_nalloced; i++) if (aw_alloced[i & 63] == (void *)A->data) fresh = 1; if (!fresh) fail("model-conformance", "%s: no cached block of that size, but the data block %p did not come from the allocator", nm, (void *)A->data); }
#endif
  (void)na0; (void)predicted;
  if (bytes) write_canary(q);
  nH++;
  check_model(nm); check_all_live(nm);
}
static void do_win(int hi) {
  char nm[48]; snprintf(nm, sizeof nm, "WIN(h%d)", hi);
  mzd_t *P = H[hi].h; long nf0 = aw_nfreed;
  mzd_t *W = mzd_init_window(P, 0, 0, P->nrows > 1 ? 1 : P->nrows, P->ncols > 64 ? 64 : P->ncols);
  handle *q = &H[nH]; memset(q, 0, sizeof *q); q->h = W; q->kind = 1; q->cls = H[hi].cls; q->parent = hi; q->alive = 1;
  for (int i = 0; i < nH; i++) if (H[i].alive && H[i].h == W) fail("header-shared", "%s: header address equals that of live handle %d", nm, i);
  for (int i = 0; i < nstart; i++) if (start_alive[i] && START[i] == W) fail("header-shared", "%s: header address equals that of a live start matrix", nm);
  if (W->data != P->data) fail("window-data", "%s: window does not point into its parent", nm);
  if (aw_nfreed != nf0) fail("window-frees", "%s: creating a window released memory", nm);
  nH++;
  check_model(nm); check_all_live(nm);
}
/* model of m4ri_mmc_free(data, bytes): which pointer (if any) must reach free()? */
static void model_free(size_t bytes, void *data, void **expect_free, int *expect_any) {
#if __M4RI_ENABLE_MMC
  if (bytes < (size_t)__M4RI_MMC_THRESHOLD) { /* note: zero-area matrices (size 0, data NULL) go through the cache front end too and can evict */
    int slot = -1; for (int i = 0; i < __M4RI_MMC_NBLOCKS; i++) if (MS[i].size == 0) { slot = i; break; }
    if (slot >= 0) { MS[slot].size = bytes; MS[slot].data = data; }
    else { *expect_free = MS[MJ].data; *expect_any = 1; MS[MJ].size = bytes; MS[MJ].data = data; MJ = (MJ + 1) % __M4RI_MMC_NBLOCKS; S->evictions++; }
  } else { *expect_free = data; *expect_any = 1; }
#else
  *expect_free = data; *expect_any = (data != NULL);
#endif
}
static int is_live_data(const void *p) { for (int i = 0; i < nH; i++) if (H[i].alive && H[i].kind == 0 && H[i].bytes && (const void *)H[i].h->data == p) return 1; return 0; }
static void do_free(int hi) {
  char nm[48]; snprintf(nm, sizeof nm, "FREE(h%d:%s)", hi, H[hi].kind ? "window" : "owned");
  handle *q = &H[hi]; long nf0 = aw_nfreed; void *data = q->h->data; size_t bytes = q->bytes; void *expect_free = NULL; int expect_any = 0;
  q->alive = 0;
  if (q->kind == 0) {
    for (int i = 0; i < nH; i++) if (H[i].alive && H[i].kind == 1 && H[i].parent == hi) H[i].parent_dead = 1;
    model_free(bytes, data, &expect_free, &expect_any);
  }
  mzd_free(q->h);
  /* conformance: which pointers reached free()? */
  int saw_expected = 0;
  for (long i = nf0; i < aw_nfreed; i++) { void *p = aw_freed[i & 63];
    if (p == expect_free) { saw_expected = 1; continue; }
    if (is_live_data(p)) fail(q->kind ? "window-freed-parent-storage" : "live-storage-freed", "%s: free() was called on the data block of a live matrix", nm);
    else if (q->kind == 0 && p == data && !expect_any) fail("model-conformance", "%s: the block was released although the model keeps it in the cache", nm);
  }
  if (expect_any && expect_free && !saw_expected) fail("model-conformance", "%s: the model predicts free(%p) (eviction / uncached size) but it did not happen", nm, expect_free);
  if (q->kind == 1 && !q->parent_dead) { handle *par = &H[q->parent]; if (par->alive && par->bytes && !check_canary(par)) fail("window-freed-parent-storage", "%s: parent contents damaged by freeing the window", nm); }
  check_model(nm); check_all_live(nm);
}
static void do_freeblock(int b) {
  char nm[48]; snprintf(nm, sizeof nm, "FREEBLOCK(%d)", b);
  /* free every live start header that lies in header block b (list order); b == 99: the malloc'ed ones */
  for (int i = 0; i < nstart; i++) if (start_alive[i]) { int e, bi = header_block_index(START[i], &e); if ((b == 99 && bi < 0) || bi == b) { void *ef = NULL; int ea = 0; long nf0 = aw_nfreed; start_alive[i] = 0; model_free(0, NULL, &ef, &ea); mzd_free(START[i]);
      if (ea && ef) { int saw = 0; for (long x = nf0; x < aw_nfreed; x++) if (aw_freed[x & 63] == ef) saw = 1; if (!saw) fail("model-conformance", "%s: the model predicts the eviction free(%p) but it did not happen", nm, ef); }
      for (long x = nf0; x < aw_nfreed; x++) if (is_live_data(aw_freed[x & 63])) fail("live-storage-freed", "%s: free() was called on the data block of a live matrix", nm); } }
  check_model(nm); check_all_live(nm);
}

/* free ONE start header (the first live one in list order) of header block b: makes a hole in an interior block */
static void do_freestart(int b) {
  char nm[48]; snprintf(nm, sizeof nm, "FREESTART(%d)", b);
  for (int i = 0; i < nstart; i++) if (start_alive[i]) { int e, bi = header_block_index(START[i], &e); if ((b == 99 && bi < 0) || bi == b) { void *ef = NULL; int ea = 0; long nf0 = aw_nfreed; start_alive[i] = 0; model_free(0, NULL, &ef, &ea); mzd_free(START[i]);
      if (ea && ef) { int saw = 0; for (long x = nf0; x < aw_nfreed; x++) if (aw_freed[x & 63] == ef) saw = 1; if (!saw) fail("model-conformance", "%s: the model predicts the eviction free(%p) but it did not happen", nm, ef); }
      for (long x = nf0; x < aw_nfreed; x++) if (is_live_data(aw_freed[x & 63])) fail("live-storage-freed", "%s: free() was called on the data block of a live matrix", nm);
      break; } }
  check_model(nm); check_all_live(nm);
}
/* m4ri_mmc_cleanup() in the middle of a history (public: "free all blocks in the cache"): every cached block, and nothing else, is released */
static void do_cleanup(void) {
  const char *nm = "CLEANUP";
  long nf0 = aw_nfreed;
  m4ri_mmc_cleanup();
#if __M4RI_ENABLE_MMC
  for (int i = 0; i < __M4RI_MMC_NBLOCKS; i++) { if (MS[i].size) { int saw = 0; for (long x = nf0; x < aw_nfreed; x++) if (aw_freed[x & 63] == MS[i].data) saw = 1; if (!saw) fail("model-conformance", "%s: cached block %p (slot %d) was not released", nm, MS[i].data, i); } MS[i].size = 0; MS[i].data = NULL; }
#endif
  for (long x = nf0; x < aw_nfreed; x++) if (is_live_data(aw_freed[x & 63])) fail("live-storage-freed", "%s: free() was called on the data block of a live matrix", nm);
  check_model(nm); check_all_live(nm);
}

static uint64_t state_key(void) {
  uint64_t h = 0x14;
#define MIXK(v) do { h ^= (uint64_t)(v) + 0x9e3779b97f4a7c15ULL + (h << 6) + (h >> 2); h *= 0xff51afd7ed558ccdULL; h ^= h >> 32; } while (0)
#if __M4RI_ENABLE_MMC
  for (int i = 0; i < __M4RI_MMC_NBLOCKS; i++) MIXK(m4ri_mmc_cache[i].size);
  MIXK(MJ);
#endif
#if __M4RI_ENABLE_MZD_CACHE
  int bi = 0, cur = -1;
  for (mzd_t_cache_t *c = &mzd_cache; c; c = c->next, bi++) { MIXK(c->used); if (c == current_cache) cur = bi; }
  MIXK(bi); MIXK(cur);
#endif
  /* live handles in canonical order (header position), with kind, class, parent's canonical position */
  int order[MAXH], n = 0; for (int i = 0; i < nH; i++) if (H[i].alive) order[n++] = i;
  for (int a = 0; a < n; a++) for (int b = a + 1; b < n; b++) if ((uintptr_t)H[order[b]].h < (uintptr_t)H[order[a]].h) { int t = order[a]; order[a] = order[b]; order[b] = t; }
  for (int a = 0; a < n; a++) { handle *q = &H[order[a]]; int e, b = header_block_index(q->h, &e); int ppos = -1; if (q->kind == 1 && !q->parent_dead) for (int x = 0; x < n; x++) if (order[x] == q->parent) ppos = x; MIXK(b); MIXK(e); MIXK(q->kind); MIXK(q->cls); MIXK(ppos); MIXK(q->parent_dead); }
  int ns = 0, nsm = 0; for (int i = 0; i < nstart; i++) if (start_alive[i]) { int e; if (header_block_index(START[i], &e) < 0) nsm++; ns++; }
  MIXK(ns); MIXK(nsm);
  return h ? h : 1;
}

/* I6: from this state, free everything and finalise: nothing may be retained */
static long FINI_DELTA = 0;
static void final_check(int order) {
  pid_t p = fork();
  if (p == 0) {
    alarm(900);
    if (order == 0) { for (int i = nH - 1; i >= 0; i--) if (H[i].alive && H[i].kind == 1) mzd_free(H[i].h); for (int i = 0; i < nH; i++) if (H[i].alive && H[i].kind == 0) mzd_free(H[i].h); for (int i = nstart - 1; i >= 0; i--) if (start_alive[i]) mzd_free(START[i]); }
    else { for (int i = 0; i < nstart; i++) if (start_alive[i]) mzd_free(START[i]); for (int i = 0; i < nH; i++) if (H[i].alive && H[i].kind == 0) mzd_free(H[i].h); for (int i = 0; i < nH; i++) if (H[i].alive && H[i].kind == 1) mzd_free(H[i].h); }
    m4ri_fini();
    if (aw_live != FINI_DELTA) fail("memory-retained", "after freeing everything (%s) and m4ri_fini(): %ld block(s) still allocated", order ? "parents before windows, FIFO" : "windows first, LIFO", aw_live - FINI_DELTA);
    _exit(0);
  }
  int st; waitpid(p, &st, 0);
  if (!(WIFEXITED(st) && WEXITSTATUS(st) == 0)) { fail("crash-on-teardown", "freeing everything (%s) + m4ri_fini() ended abnormally (status %x)", order ? "parents first" : "windows first", st); S->crashes++; }
  S->final_checks++;
}

typedef struct { int op, arg; } opt;
static int g_more_ops = 1;
static int enabled(opt *out) {
  int n = 0, live = 0; for (int i = 0; i < nH; i++) live += H[i].alive;
  if (live < MAXLIVE && nH < MAXH) { for (int c = 0; c < ncls; c++) out[n++] = (opt){OP_INIT, c}; for (int i = 0; i < nH; i++) if (H[i].alive && H[i].kind == 0 && H[i].bytes) out[n++] = (opt){OP_WIN, i}; }
  for (int i = 0; i < nH; i++) if (H[i].alive) out[n++] = (opt){OP_FREE, i};
  /* blocks that still hold live start headers */
  int seen[70] = {0}, any_m = 0;
  for (int i = 0; i < nstart; i++) if (start_alive[i]) { int e, b = header_block_index(START[i], &e); if (b < 0) any_m = 1; else if (b < 70) seen[b] = 1; }
  for (int b = 0; b < 70; b++) if (seen[b]) out[n++] = (opt){OP_FREEBLOCK, b};
  if (any_m) out[n++] = (opt){OP_FREEBLOCK, 99};
  if (g_more_ops) { for (int b = 0; b < 70; b++) if (seen[b]) out[n++] = (opt){OP_FREESTART, b}; out[n++] = (opt){OP_CLEANUP, 0}; }
  return n;
}
static void opname(opt o, char *buf, size_t n) {
  switch (o.op) { case OP_INIT: snprintf(buf, n, "I%d", o.arg); break; case OP_WIN: snprintf(buf, n, "W%d", o.arg); break; case OP_FREE: snprintf(buf, n, "F%d", o.arg); break; case OP_FREESTART: snprintf(buf, n, "S%d", o.arg); break; case OP_CLEANUP: snprintf(buf, n, "C%d", o.arg); break; default: snprintf(buf, n, "B%d", o.arg); }
}
static void apply(opt o) {
  char nm[16]; opname(o, nm, sizeof nm);
  PLEN += snprintf(PATH + PLEN, sizeof PATH - (size_t)PLEN, "%s%s", PLEN && PATH[PLEN - 1] != '=' ? "," : "", nm);
  switch (o.op) { case OP_INIT: do_init(o.arg); break; case OP_WIN: do_win(o.arg); break; case OP_FREE: do_free(o.arg); break; case OP_FREESTART: do_freestart(o.arg); break; case OP_CLEANUP: do_cleanup(); break; default: do_freeblock(o.arg); }
  S->transitions++;
}

static int g_wid = 0, g_nw = 1, g_depth = 6, g_both_teardowns = 0;
static void explore(int depth, uint64_t phash) {
  if (depth > S->maxdepth) S->maxdepth = depth;
  if (depth >= g_depth || S->deadline_hit) return;
  if (g_deadline_at > 0 && now() > g_deadline_at) { S->deadline_hit = 1; return; }
  opt ops[160]; int n = enabled(ops);
  for (int i = 0; i < n; i++) {
    uint64_t ph = phash * 1000003ULL + (uint64_t)(ops[i].op * 131 + ops[i].arg + 7);
    if (depth == 1 && (ph % (uint64_t)g_nw) != (uint64_t)g_wid) continue; /* work split on the first two transitions */
    fflush(NULL);
    pid_t p = fork();
    if (p < 0) { fprintf(stderr, "HARNESS-ERROR: fork failed\n"); _exit(2); }
    if (p == 0) {
      alarm(900); /* a transition that hangs is a finding, not a stuck explorer */
      apply(ops[i]);
      int is_new = 0; uint64_t key = state_key();
      int expand = visit(key, g_depth - (depth + 1), &is_new);
      if (is_new) { uint64_t sn = __sync_fetch_and_add(&S->states, 1); if (g_both_teardowns) { final_check(0); final_check(1); } else final_check((int)(sn & 1)); if (S->nsamples < 12 && (S->states % 997 == 1 || S->states < 4)) { int k = __sync_fetch_and_add(&S->nsamples, 1); if (k < 12) snprintf(S->samples[k], 200, "%s", PATH); } }
      else if (!expand) __sync_fetch_and_add(&S->pruned, 1);
      if (depth < 1) expand = 1; /* the split levels are walked by every worker */
      if (expand) explore(depth + 1, ph);
      _exit(0);
    }
    int st; while (waitpid(p, &st, 0) < 0 && errno == EINTR) {}
    if (!(WIFEXITED(st) && WEXITSTATUS(st) == 0)) {
      if (WIFEXITED(st) && WEXITSTATUS(st) == 2) { fprintf(stderr, "HARNESS-ERROR in child\n"); _exit(2); }
      char nm[16]; opname(ops[i], nm, sizeof nm); int save = PLEN;
      PLEN += snprintf(PATH + PLEN, sizeof PATH - (size_t)PLEN, "%s%s", PLEN && PATH[PLEN - 1] != '=' ? "," : "", nm);
      fail("crash", "transition %s ended abnormally (status %x: %s); replay the path for the sanitizer report", nm, st, WIFSIGNALED(st) ? "signal" : "exit");
      PLEN = save; PATH[PLEN] = 0; __sync_fetch_and_add(&S->crashes, 1);
    }
  }
}

static void setup_start(int nlive) {
  for (int i = 0; i < nlive; i++) { START[nstart] = mzd_init(0, 0); start_alive[nstart++] = 1; }
}

/* scripted families at the real (or hooked) constants: eviction rotations and header-block crossings */
static void scripted(void) {
#if __M4RI_ENABLE_MMC
  int NB = __M4RI_MMC_NBLOCKS;
  int counts[3] = {NB + 1, NB + 2, 2 * NB + 1};
  for (int ci = 0; ci < 3; ci++) for (int order = 0; order < 2 + counts[ci]; order++) {
    pid_t p = fork();
    if (p == 0) {
      int n = counts[ci]; PLEN = snprintf(PATH, sizeof PATH, "scripted:sizes=%d:order=%d=", n, order);
      mzd_t *M[80]; handle Hs[80];
      for (int i = 0; i < n; i++) { M[i] = mzd_init(1 + i, 64); Hs[i].h = M[i]; Hs[i].bytes = (size_t)(1 + i) * 16; Hs[i].canary = 77 + (uint64_t)i; write_canary(&Hs[i]); }
      /* free in LIFO (0), FIFO (1) or rotation r = order-2, checking the survivors after every free */
      for (int t = 0; t < n; t++) { int i = order == 0 ? n - 1 - t : order == 1 ? t : (t + order - 2) % n;
        mzd_free(M[i]); M[i] = NULL; S->transitions++;
        for (int q = 0; q < n; q++) if (M[q] && !check_canary(&Hs[q])) { fail("live-matrix-corrupted", "after freeing matrix %d: matrix %d damaged", i, q); break; } }
      /* re-allocate all sizes: must be zero and distinct */
      for (int i = 0; i < n; i++) { M[i] = mzd_init(1 + i, 64); const uint64_t *d = (const uint64_t *)M[i]->data; for (int w = 0; w < (1 + i) * 2; w++) if (d[w]) { fail("fresh-not-zero", "re-created %dx64 matrix not zero", 1 + i); break; } Hs[i].h = M[i]; write_canary(&Hs[i]); S->transitions++; }
      for (int i = 0; i < n; i++) for (int q = i + 1; q < n; q++) if (ranges_overlap(M[i]->data, Hs[i].bytes, M[q]->data, Hs[q].bytes)) fail("storage-shared", "re-created matrices %d and %d overlap", i, q);
      for (int i = 0; i < n; i++) mzd_free(M[i]);
      m4ri_fini();
      if (aw_live != FINI_DELTA) fail("memory-retained", "scripted family: %ld block(s) retained after m4ri_fini()", aw_live - FINI_DELTA);
      __sync_fetch_and_add(&S->states, 1);
      _exit(0);
    }
    int st; waitpid(p, &st, 0); if (!(WIFEXITED(st) && WEXITSTATUS(st) == 0)) { PLEN = snprintf(PATH, sizeof PATH, "scripted:sizes=%d:order=%d", counts[ci], order); fail("crash", "scripted eviction family ended abnormally (status %x)", st); }
  }
#endif
#if __M4RI_ENABLE_MZD_CACHE
  int per = 64, maxb = __M4RI_MZD_T_CACHE_MAX;
  int totals[5] = {per * maxb - 1, per * maxb, per * maxb + 1, per * maxb + 70, per * 2 + 2};
  for (int ti = 0; ti < 5; ti++) for (int order = 0; order < 6; order++) {
    pid_t p = fork();
    if (p == 0) {
      int n = totals[ti]; PLEN = snprintf(PATH, sizeof PATH, "scripted:headers=%d:order=%d=", n, order);
      mzd_t **M = __real_malloc(sizeof(mzd_t *) * (size_t)n); mzd_t *keep = mzd_init(3, 64); handle K; K.h = keep; K.bytes = 48; K.canary = 5; write_canary(&K);
      for (int i = 0; i < n; i++) M[i] = mzd_init(0, 0);
      for (int i = 0; i < n; i++) for (int q = i + 1; q < n && q < i + 3; q++) if (M[i] == M[q]) fail("header-shared", "two live headers share an address");
      /* orders: LIFO, FIFO, stride 64 (one entry of every block in turn), middle block first then last block, blocks in reverse, even-then-odd */
      int *seq = __real_malloc(sizeof(int) * (size_t)n); int k = 0;
      switch (order) {
      case 0: for (int i = n - 1; i >= 0; i--) seq[k++] = i; break;
      case 1: for (int i = 0; i < n; i++) seq[k++] = i; break;
      case 2: for (int s = 0; s < 64; s++) for (int i = s; i < n; i += 64) seq[k++] = i; break;
      case 3: for (int i = 64; i < 128 && i < n; i++) seq[k++] = i; for (int i = n - 1; i >= 128; i--) seq[k++] = i; for (int i = 0; i < 64 && i < n; i++) seq[k++] = i; break;
      case 4: for (int b = (n - 1) / 64; b >= 0; b--) for (int i = b * 64; i < (b + 1) * 64 && i < n; i++) seq[k++] = i; break;
      default: for (int i = 0; i < n; i += 2) seq[k++] = i; for (int i = 1; i < n; i += 2) seq[k++] = i; break;
      }
      for (int t = 0; t < k; t++) { mzd_free(M[seq[t]]); S->transitions++;
        if ((t % 16) == 15 || t == k - 1 || (order == 3 && t >= 63)) { /* a new matrix now must be fresh, zero and not clobber anything */
          mzd_t *X = mzd_init(2, 64); const uint64_t *d = (const uint64_t *)X->data; if (d[0] | d[1] | d[2] | d[3]) fail("fresh-not-zero", "matrix created after %d frees is not zero", t + 1);
          if (X == keep) fail("header-shared", "new header equals a live one");
          mzd_t *W = mzd_init_window(keep, 0, 0, 1, 64); mzd_free(W); mzd_free(X);
          if (!check_canary(&K)) { fail("live-matrix-corrupted", "live matrix damaged after %d header frees (order %d)", t + 1, order); break; } } }
      mzd_free(keep);
      m4ri_fini();
      if (aw_live != FINI_DELTA) fail("memory-retained", "scripted header family: %ld block(s) retained after m4ri_fini()", aw_live - FINI_DELTA);
      __sync_fetch_and_add(&S->states, 1);
      _exit(0);
    }
    int st; waitpid(p, &st, 0); if (!(WIFEXITED(st) && WEXITSTATUS(st) == 0)) { PLEN = snprintf(PATH, sizeof PATH, "scripted:headers=%d:order=%d", totals[ti], order); fail("crash", "scripted header family ended abnormally (status %x); replay for the sanitizer report", st); S->crashes++; }
  }
#endif
}

static const char *arg(int argc, char **argv, const char *name, const char *d) { size_t n = strlen(name); for (int i = 1; i < argc; i++) if (!strncmp(argv[i], "--", 2) && !strncmp(argv[i] + 2, name, n) && argv[i][2 + n] == '=') return argv[i] + 3 + n; return d; }
static void jstr(FILE *f, const char *s) { fputc('"', f); for (; *s; s++) { unsigned char c = (unsigned char)*s; if (c == '"' || c == '\\') { fputc('\\', f); fputc(c, f); } else if (c < 32) fprintf(f, "\\u%04x", c); else fputc(c, f); } fputc('"', f); }

int main(int argc, char **argv) {
  double t0 = now();
  g_depth = atoi(arg(argc, argv, "depth", "6")); g_nw = atoi(arg(argc, argv, "workers", "16")); MAXLIVE = atoi(arg(argc, argv, "maxlive", "4"));
  int deadline = atoi(arg(argc, argv, "deadline", "0")); const char *outp = arg(argc, argv, "out", NULL); const char *starts = arg(argc, argv, "starts", "0"); const char *replay = arg(argc, argv, "replay", NULL);
  g_both_teardowns = atoi(arg(argc, argv, "both-teardowns", "0")); g_more_ops = atoi(arg(argc, argv, "more-ops", "1"));
  int setbits = atoi(arg(argc, argv, "setbits", "22")); const char *tier = arg(argc, argv, "tier", "quick"); int do_scripted = atoi(arg(argc, argv, "scripted", "1"));
  if (deadline > 0) g_deadline_at = t0 + deadline;
  uint64_t cap = 1ULL << setbits; size_t sz = sizeof(shared_t) + cap * 9;
  S = mmap(NULL, sz, PROT_READ | PROT_WRITE, MAP_SHARED | MAP_ANONYMOUS, -1, 0); if (S == MAP_FAILED) { fprintf(stderr, "HARNESS-ERROR: mmap\n"); return 2; }
  S->cap = cap; TK = (volatile uint64_t *)(S + 1); TB = (volatile uint8_t *)(TK + cap);
  classes();
  aw_tracking = 1;
  /* adversarial allocator: every block handed out by malloc / posix_memalign is pre-filled with a non-zero pattern (what a recycled
     heap chunk looks like), so "a newly created matrix is entirely zero" never holds by the accident of fresh zero pages */
  aw_fill_mode = 2; aw_fill_at = -1;
  /* how many blocks does m4ri_fini() release that were allocated before tracking started (code book)? measure in a child */
  { int pfd[2]; if (pipe(pfd)) return 2; pid_t p = fork(); if (p == 0) { long a = aw_live; m4ri_fini(); long dlt = aw_live - a; if (write(pfd[1], &dlt, sizeof dlt) < 0) _exit(3); _exit(0); } int st; waitpid(p, &st, 0); if (read(pfd[0], &FINI_DELTA, sizeof FINI_DELTA) != sizeof FINI_DELTA) { fprintf(stderr, "HARNESS-ERROR: fini probe\n"); return 2; } close(pfd[0]); close(pfd[1]); }
  if (atoi(arg(argc, argv, "replay-scripted", "0"))) {
    scripted();
    for (uint64_t i = 0; i < S->nfail && i < MAXF; i++) printf("FAIL %s | %s : %s\n", S->fails[i].clause, S->fails[i].path, S->fails[i].msg);
    printf("replayed the scripted families: %llu failure(s)\n", (unsigned long long)S->nfail);
    return S->nfail ? 1 : 0;
  }
  if (replay) {
    /* --replay=<start>=<op,op,...> : sequential re-execution without the explorer */
    int nlive = atoi(replay); setup_start(nlive); PLEN = snprintf(PATH, sizeof PATH, "start=%d=", nlive);
    const char *q = strchr(replay, '='); q = q ? q + 1 : "";
    while (*q) { opt o; char c = *q++; o.arg = (int)strtol(q, (char **)&q, 10); o.op = c == 'I' ? OP_INIT : c == 'W' ? OP_WIN : c == 'F' ? OP_FREE : c == 'S' ? OP_FREESTART : c == 'C' ? OP_CLEANUP : OP_FREEBLOCK; apply(o); if (*q == ',') q++; }
    final_check(0); final_check(1);
    for (uint64_t i = 0; i < S->nfail && i < MAXF; i++) printf("FAIL %s | %s : %s\n", S->fails[i].clause, S->fails[i].path, S->fails[i].msg);
    printf("replayed %s: %llu failure(s)\n", PATH, (unsigned long long)S->nfail);
    return S->nfail ? 1 : 0;
  }
  /* explicit-state search from every start state */
  char sbuf[256]; snprintf(sbuf, sizeof sbuf, "%s", starts);
  for (char *tok = strtok(sbuf, ","); tok; tok = strtok(NULL, ",")) {
    int nlive = atoi(tok);
    pid_t top = fork();
    if (top == 0) {
      setup_start(nlive); PLEN = snprintf(PATH, sizeof PATH, "start=%d=", nlive);
      int is_new; visit(state_key(), g_depth, &is_new); if (is_new) { __sync_fetch_and_add(&S->states, 1); final_check(0); final_check(1); }
      pid_t w[64];
      for (int k = 0; k < g_nw; k++) { w[k] = fork(); if (w[k] == 0) { g_wid = k; explore(0, (uint64_t)nlive + 17); _exit(0); } }
      for (int k = 0; k < g_nw; k++) { int st; waitpid(w[k], &st, 0); if (!(WIFEXITED(st) && WEXITSTATUS(st) == 0)) { if (WIFEXITED(st) && WEXITSTATUS(st) == 2) _exit(2); fail("crash", "explorer worker ended abnormally (status %x)", st); } }
      _exit(0);
    }
    int st; waitpid(top, &st, 0); if (WIFEXITED(st) && WEXITSTATUS(st) == 2) { fprintf(stderr, "HARNESS-ERROR in explorer\n"); return 2; }
  }
  if (do_scripted) scripted();
  FILE *f = outp ? fopen(outp, "w") : stdout;
  fprintf(f, "{\"property\":\"C14\",\"tier\":\"%s\",\"seed\":0,\"workers\":%d,\"total_cases\":%llu,\"executed\":%llu,\"distinct_nontrivial\":%llu,\"set_saturated\":0,\"deadline_hit\":%d,\"crashes\":%llu,\"hangs\":0,\"selfcheck\":0,\"nfail_total\":%llu,\"wall_s\":%.3f,",
          tier, g_nw, (unsigned long long)S->transitions, (unsigned long long)S->transitions, (unsigned long long)S->states, S->deadline_hit, (unsigned long long)S->crashes, (unsigned long long)S->nfail, now() - t0);
  fprintf(f, "\"counters\":{\"states\":%llu,\"transitions\":%llu,\"traces_validated_against_impl\":%llu,\"invariant_evaluations\":%llu,\"teardown_checks\":%llu,\"evictions\":%llu,\"cache_hits\":%llu,\"pruned_revisits\":%llu,\"max_depth_reached_run\":%d,\"depth_bound_run\":%d},",
          (unsigned long long)S->states, (unsigned long long)S->transitions, (unsigned long long)S->transitions, (unsigned long long)S->inv_evals, (unsigned long long)S->final_checks, (unsigned long long)S->evictions, (unsigned long long)S->cache_hits, (unsigned long long)S->pruned, S->maxdepth, g_depth);
  fprintf(f, "\"samples\":["); int ns = S->nsamples > 12 ? 12 : S->nsamples; for (int i = 0; i < ns; i++) { if (i) fputc(',', f); jstr(f, S->samples[i]); }
  fprintf(f, "],\"failures\":["); uint64_t nf = S->nfail > MAXF ? MAXF : S->nfail;
  for (uint64_t i = 0; i < nf; i++) { if (i) fputc(',', f); fprintf(f, "{\"index\":%llu,\"id\":", (unsigned long long)i); jstr(f, S->fails[i].path); fprintf(f, ",\"sig\":\"alloc-history\",\"clause\":"); jstr(f, S->fails[i].clause); fprintf(f, ",\"msg\":"); jstr(f, S->fails[i].msg); fputc('}', f); }
  fprintf(f, "]}\n");
  if (outp) fclose(f);
  (void)g_errnote;
  return 0;
}
