"""Build pipeline: configuration -> scratch copy of <repo>/m4ri -> objects -> libm4ri.a (content-hash cached).

Every check calls lib()/harness() which hash the *current* contents of <repo>/m4ri/*.{c,h},
configure.ac and m4ri_config.h.in, so a change of the working tree always leads to a rebuild.
"""
import hashlib, os, re, shutil, subprocess, sys, tempfile, time, json, uuid, threading
_LOCKS = {}
_LOCKS_GUARD = threading.Lock()
def _lock(key):
    with _LOCKS_GUARD:
        return _LOCKS.setdefault(key, threading.Lock())
from concurrent.futures import ThreadPoolExecutor

VERIF = os.path.dirname(os.path.dirname(os.path.abspath(__file__)))
REPO = os.environ.get("VERIF_REPO", "/repo")
CACHE = os.path.join(VERIF, "build")
GUARD = "M4RI_VERIF"
NATIVE_SIMD = "-mmmx -msse -msse2 -msse3 -mssse3 -msse4.1 -msse4.2 -mavx -mavx2"


class HarnessError(Exception):
    pass


class Config(dict):
    """L1,L2,L3 bytes; sse2 0/1; simd 'baseline'|'native'; thread_safe, openmp 0/1; ndebug 0/1;
    instr 'asan'|'plain'|'tsancb'|'tsan'|'cov'; cc; opt; defs (list of -D strings); png 0/1"""
    DEFAULT = dict(L1=32768, L2=1310720, L3=56623104, sse2=1, simd="baseline", thread_safe=0, openmp=0,
                   ndebug=1, instr="asan", cc=None, opt=None, defs=(), png=1)

    def __init__(self, **kw):
        d = dict(Config.DEFAULT)
        d.update(kw)
        d["defs"] = tuple(d["defs"])
        super().__init__(d)
        if self["cc"] is None:
            self["cc"] = "gcc" if (self["openmp"] or self["instr"] in ("tsancb",)) else "clang"
        if self["opt"] is None:
            self["opt"] = "-O2" if self["instr"] == "plain" else "-O1"

    def tag(self):
        return ("L%d_%d_%d_sse%d_%s_ts%d_omp%d_nd%d_%s_%s%s" % (
            self["L1"], self["L2"], self["L3"], self["sse2"], self["simd"], self["thread_safe"], self["openmp"],
            self["ndebug"], self["instr"], self["cc"], "".join("_" + d.replace("=", "") for d in self["defs"])))

    def instr_flags(self):
        i = self["instr"]
        if i == "asan":
            return ["-fsanitize=address,undefined", "-fno-sanitize-recover=all", "-fno-omit-frame-pointer",
                    "-fno-sanitize=function,pointer-overflow"] if self["cc"] == "clang" else \
                   ["-fsanitize=address,undefined", "-fno-sanitize-recover=all", "-fno-omit-frame-pointer", "-fno-sanitize=pointer-overflow"]
        if i == "plain":
            return []
        if i in ("tsancb", "tsan"):
            return ["-fsanitize=thread", "-fno-omit-frame-pointer"]
        if i == "cov":
            return ["-fprofile-instr-generate", "-fcoverage-mapping"]
        raise HarnessError("unknown instr " + i)

    def cflags(self, instrument=True):
        f = [self["opt"], "-g1", "-std=gnu11", "-fno-strict-aliasing", "-Wno-error", "-w", "-Werror=implicit-function-declaration"]
        if self["simd"] == "native":
            f += NATIVE_SIMD.split()
        if self["openmp"]:
            f += ["-fopenmp"]
        if self["ndebug"]:
            f += ["-DNDEBUG"]
        f += ["-D" + GUARD] + ["-D" + d for d in self["defs"]]
        return f + (self.instr_flags() if instrument else [])


MINCACHE = dict(L1=4096, L2=32768, L3=65536)


def repo_sources(repo=None):
    repo = repo or REPO
    m = os.path.join(repo, "m4ri")
    files = sorted(f for f in os.listdir(m) if re.fullmatch(r"[A-Za-z0-9_]+\.(c|h)", f) and f not in ("m4ri_config.h", "config.h"))
    return m, files


def tree_hash(repo=None):
    repo = repo or REPO
    m, files = repo_sources(repo)
    h = hashlib.sha256()
    for f in files:
        h.update(f.encode()); h.update(open(os.path.join(m, f), "rb").read())
    for f in ("configure.ac", "m4ri/m4ri_config.h.in"):
        h.update(f.encode()); h.update(open(os.path.join(repo, f), "rb").read())
    return h.hexdigest()


def configure_cache_flags(repo, thread_safe, openmp):
    """Evaluate the plain-shell fragment of configure.ac that maps --enable-thread-safe / OpenMP to the
    two cache switches, so that the mapping itself is inside the checked system."""
    txt = open(os.path.join(repo, "configure.ac")).read()
    try:
        a = txt.index("# Thread-Safety")
        b = txt.index("AC_SUBST(M4RI_ENABLE_MMC)")
    except ValueError:
        raise HarnessError("configure.ac: thread-safety fragment not found")
    frag = txt[a:b]
    # drop autoconf macro calls (possibly spanning lines with balanced parentheses)
    out, depth = [], 0
    for line in frag.splitlines():
        s = line.strip()
        if depth == 0 and re.match(r"^(AC_|AS_|AX_|AM_)", s):
            depth = line.count("(") - line.count(")")
            continue
        if depth > 0:
            depth += line.count("(") - line.count(")")
            continue
        out.append(line)
    script = ("enable_thread_safe=%s\nM4RI_HAVE_OPENMP=%d\n" % ("yes" if thread_safe else "no", 1 if openmp else 0)
              + "\n".join(out) + "\necho $M4RI_ENABLE_MMC $M4RI_ENABLE_MZD_CACHE\n")
    r = subprocess.run(["sh", "-c", script], capture_output=True, text=True)
    try:
        mmc, mzdc = r.stdout.split()
        return int(mmc), int(mzdc)
    except Exception:
        raise HarnessError("configure.ac fragment evaluation failed: %r %r" % (r.stdout, r.stderr))


def gen_config_h(repo, cfg):
    t = open(os.path.join(repo, "m4ri", "m4ri_config.h.in")).read()
    mmc, mzdc = configure_cache_flags(repo, cfg["thread_safe"], cfg["openmp"])
    sub = dict(M4RI_HAVE_MM_MALLOC=1, M4RI_HAVE_POSIX_MEMALIGN=1, M4RI_HAVE_SSE2=cfg["sse2"],
               M4RI_HAVE_OPENMP=cfg["openmp"], M4RI_CPU_L1_CACHE=cfg["L1"], M4RI_CPU_L2_CACHE=cfg["L2"],
               M4RI_CPU_L3_CACHE=cfg["L3"], M4RI_DEBUG_DUMP=0, M4RI_DEBUG_MZD=0, M4RI_HAVE_LIBPNG=cfg["png"],
               CC=cfg["cc"], SIMD_FLAGS=(NATIVE_SIMD if cfg["simd"] == "native" else ""),
               OPENMP_CFLAGS=("-fopenmp" if cfg["openmp"] else ""), CFLAGS="",
               M4RI_ENABLE_MZD_CACHE=mzdc, M4RI_ENABLE_MMC=mmc)
    def rep(m):
        k = m.group(1)
        if k not in sub:
            raise HarnessError("m4ri_config.h.in: unknown substitution @%s@" % k)
        return str(sub[k])
    return re.sub(r"@([A-Za-z0-9_]+)@", rep, t), (mmc, mzdc)


def _run(cmd, **kw):
    r = subprocess.run(cmd, capture_output=True, text=True, **kw)
    if r.returncode != 0:
        raise HarnessError("command failed: %s\n%s\n%s" % (" ".join(cmd), r.stdout[-4000:], r.stderr[-4000:]))
    return r


_PINNED = set()   # cache entries handed out by this process: never collected while it runs


def _gc(keep=400):
    """drop the least recently used cache entries beyond `keep` (never one this process has handed out, never a lock/temp)"""
    try:
        ents = [(os.path.getmtime(os.path.join(CACHE, d)), d) for d in os.listdir(CACHE)]
    except FileNotFoundError:
        return
    ents.sort(reverse=True)
    for mt, d in ents[keep:]:
        if time.time() - mt < 6 * 3600:
            continue  # recently handed out (possibly by another running check)
        if os.path.join(CACHE, d) in _PINNED or not (d.startswith("lib-") or d.startswith("bin-")) or ".tmp" in d or d.endswith(".lock"):
            continue
        shutil.rmtree(os.path.join(CACHE, d), ignore_errors=True)


def lib(cfg, repo=None):
    """Returns directory with include root (m4ri/*.h incl. generated m4ri_config.h) and libm4ri.a."""
    repo = repo or REPO
    key = hashlib.sha256((tree_hash(repo) + cfg.tag() + " ".join(cfg.cflags()) + "v3").encode()).hexdigest()[:24]
    d = os.path.join(CACHE, "lib-" + key)
    _PINNED.add(d)
    with _lock(d):
        return _lib_locked(cfg, repo, d)


def _lib_locked(cfg, repo, d):
    if os.path.exists(os.path.join(d, "ok")):
        os.utime(d)
        return d
    os.makedirs(CACHE, exist_ok=True)
    tmp = tempfile.mkdtemp(prefix="m4ri-verif-build-")
    try:
        m, files = repo_sources(repo)
        os.makedirs(os.path.join(tmp, "m4ri"))
        for f in files:
            shutil.copy(os.path.join(m, f), os.path.join(tmp, "m4ri", f))
        ch, flags = gen_config_h(repo, cfg)
        open(os.path.join(tmp, "m4ri", "m4ri_config.h"), "w").write(ch)
        cs = [f for f in files if f.endswith(".c")]
        cc = cfg["cc"]
        def comp(f):
            _run([cc] + cfg.cflags() + ["-I" + tmp, "-I/usr/include/libpng16", "-c", os.path.join(tmp, "m4ri", f), "-o",
                  os.path.join(tmp, f[:-2] + ".o")])
        with ThreadPoolExecutor(16) as ex:
            list(ex.map(comp, cs))
        _run(["ar", "rcs", os.path.join(tmp, "libm4ri.a")] + [os.path.join(tmp, f[:-2] + ".o") for f in cs])
        out = d + ".tmp%d-%s" % (os.getpid(), uuid.uuid4().hex[:8])
        shutil.rmtree(out, ignore_errors=True)
        os.makedirs(os.path.join(out, "m4ri"))
        for f in os.listdir(os.path.join(tmp, "m4ri")):
            if f.endswith(".h") or f.endswith(".c"):
                shutil.copy(os.path.join(tmp, "m4ri", f), os.path.join(out, "m4ri", f))
        shutil.copy(os.path.join(tmp, "libm4ri.a"), out)
        json.dump(dict(cfg=dict(cfg), mmc=flags[0], mzd_cache=flags[1]), open(os.path.join(out, "cfg.json"), "w"))
        open(os.path.join(out, "ok"), "w").write("ok")
        try:
            os.rename(out, d)
        except OSError:
            shutil.rmtree(out, ignore_errors=True)  # lost a race with a concurrent identical build
    finally:
        shutil.rmtree(tmp, ignore_errors=True)
    _gc()
    return d


def harness(cfg, sources, name, extra_cflags=(), extra_ldflags=(), repo=None, link_lib=True, extra_hash="", instrument_harness=True):
    """Compile harness sources (paths relative to /verif) against the library built for cfg."""
    repo = repo or REPO
    L = lib(cfg, repo)
    h = hashlib.sha256()
    h.update(L.encode()); h.update(name.encode()); h.update(" ".join(extra_cflags).encode()); h.update(" ".join(extra_ldflags).encode())
    h.update(extra_hash.encode()); h.update(b"instr1" if instrument_harness else b"instr0"); h.update(("|".join(sources) + "|" + str(link_lib)).encode())  # the translation units themselves (ICB bodies share the name "icb")
    hdir = os.path.join(VERIF, "harness")
    deps = sorted(set([os.path.join(VERIF, s) for s in sources] +
                      [os.path.join(dp, f) for sub in ("harness", "fsx", "icb") for dp, _, fs in os.walk(os.path.join(VERIF, sub)) for f in fs if f.endswith((".h", ".c", ".inc"))]))
    for p in deps:
        h.update(p.encode()); h.update(open(p, "rb").read())
    d = os.path.join(CACHE, "bin-" + h.hexdigest()[:24])
    exe = os.path.join(d, name)
    _PINNED.add(d)
    with _lock(d):
        return _harness_locked(cfg, sources, name, extra_cflags, extra_ldflags, L, hdir, d, exe, link_lib, instrument_harness)


def _harness_locked(cfg, sources, name, extra_cflags, extra_ldflags, L, hdir, d, exe, link_lib, instrument_harness=True):
    if os.path.exists(exe):
        os.utime(d)
        return exe
    tmp = d + ".tmp%d-%s" % (os.getpid(), uuid.uuid4().hex[:8])
    shutil.rmtree(tmp, ignore_errors=True)
    os.makedirs(tmp)
    hflags = cfg.cflags(instrument_harness)
    if not instrument_harness:
        hflags = [f for f in hflags if f != "-fopenmp"]  # ICB: the harness provides its own GOMP runtime, libgomp must not be linked
    cmd = ([cfg["cc"]] + hflags + list(extra_cflags) + ["-I" + L, "-I" + hdir, "-I/usr/include/libpng16"] +
           [os.path.join(VERIF, s) for s in sources] + (["%s/libm4ri.a" % L] if link_lib else []) +
           ["-o", os.path.join(tmp, name), "-lm", "-lpng16", "-lz"] + list(extra_ldflags))
    _run(cmd)
    try:
        os.rename(tmp, d)
    except OSError:
        shutil.rmtree(tmp, ignore_errors=True)
    return exe


if __name__ == "__main__":
    t = time.time()
    c = Config(**(MINCACHE if "min" in sys.argv else {}))
    print(lib(c), time.time() - t)
