#!/usr/bin/env python3
"""Regenerates /verif/MANIFEST.json from engine/props.py (claimed checks) - keeps the manifest in step with the code."""
import json, os, sys
sys.path.insert(0, os.path.dirname(os.path.dirname(os.path.abspath(__file__))))
from engine import props
V = os.path.dirname(os.path.dirname(os.path.abspath(__file__)))
ids = [json.loads(l)["id"] for l in open(os.path.join(V, "properties.jsonl"))]
checks, na = [], []
for pid in ids:
    sp = props.PROPS.get(pid)
    if sp is None or sp.get("unclaimed"):
        na.append(dict(property_id=pid, reason=(sp or {}).get("unclaimed", "check not built yet (work in progress; see DESIGN.md section 4 for the planned procedure)")))
        continue
    c = dict(property_id=pid, quick_cmd="bin/check %s --tier quick" % pid, thorough_cmd="bin/check %s --tier thorough" % pid,
             evidence_file="evidence/%s.json" % pid, replay_cmd_template="bin/replay {path}", engine=sp.get("engine", "BEX"),
             level_claimed=dict(category=sp["level"], text=sp["level_text"], design_ref=sp.get("design_ref", "DESIGN.md section 4, " + pid)),
             level_note=sp["level_note"], technique=sp["technique"])
    checks.append(c)
m = dict(version=1, setup_cmd="bin/setup",
         hooks=dict(guard="M4RI_VERIF", enable="checks compile a scratch copy of /repo/m4ri with -DM4RI_VERIF (plus -DM4RI_VERIF_MMC_NBLOCKS=n / -DM4RI_VERIF_MZD_T_CACHE_MAX=n for C14); see engine/build.py",
                    baseline_off_cmd="cd /repo && make -j8 check", source_commits=props.HOOK_COMMITS, add_only=True),
         engines=[dict(name="BEX", path="harness/", serves_properties=[p for p in ids if p in props.PROPS and props.PROPS[p].get("engine", "BEX") == "BEX"], kind_free_text="bounded-exhaustive differential explorer: complete enumeration of declared finite alphabets on the real code, 16 forked workers, reference model, sanitizer + allocator-balance oracles"),
                  dict(name="FSX", path="fsx/", serves_properties=[p for p in ids if p in props.PROPS and props.PROPS[p].get("engine") == "FSX"], kind_free_text="fork-snapshot explicit-state search over the real allocator (state = live process, canonical key of the real caches)"),
                  dict(name="ICB", path="icb/", serves_properties=[p for p in ids if p in props.PROPS and props.PROPS[p].get("engine") == "ICB"], kind_free_text="iterative context bounding: coroutine scheduler over hooked synchronisation/shared-access points + vector-clock race detector, mini-GOMP runtime")],
         checks=checks, notes="All checks rebuild the library from /repo's working tree (content-hash cache under /verif/build). Exit 2 + HARNESS-ERROR is a machinery failure, never a verdict.",
         not_applicable=na)
json.dump(m, open(os.path.join(V, "MANIFEST.json"), "w"), indent=1)
print("claimed:", [c["property_id"] for c in checks], "unclaimed:", [n["property_id"] for n in na])
