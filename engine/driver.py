"""Driver: runs the harness binaries of one property, matches known findings, confirms violations by
replay, writes evidence/<id>.json, prints VIOLATION / KNOWN-FINDING lines, returns the exit status."""
import fnmatch, json, os, shutil, subprocess, sys, tempfile, time
from . import build
from .build import Config, MINCACHE, HarnessError, VERIF

WRAP = ["-Wl,--wrap=malloc,--wrap=calloc,--wrap=realloc,--wrap=free,--wrap=posix_memalign,--wrap=m4ri_die"]
COMMON = ["harness/vx.c", "harness/alloc_wrap.c"]
SAN_ENV = dict(ASAN_OPTIONS="detect_leaks=0:abort_on_error=1:allocator_may_return_null=1:handle_abort=0:print_summary=1:detect_stack_use_after_return=0:max_malloc_fill_size=0",
               UBSAN_OPTIONS="abort_on_error=1:print_stacktrace=0:halt_on_error=1")


class Run:
    """one harness execution: configuration + harness source + arguments"""
    def __init__(self, cfg, src, args=(), group="main", label=None, kind="bex", extra_sources=(), extra_cflags=(), extra_ldflags=None, env=None, timeout=None, common=None, instrument_harness=True):
        self.cfg, self.src, self.args, self.group, self.kind = cfg, src, list(args), group, kind
        self.label = label or (os.path.basename(src) + ":" + cfg.tag())
        self.extra_sources, self.extra_cflags = list(extra_sources), list(extra_cflags)
        self.extra_ldflags = WRAP if extra_ldflags is None else list(extra_ldflags)
        self.env = env or {}
        self.common = COMMON if common is None else list(common)
        self.instrument_harness = instrument_harness
        self.timeout = timeout
        self.weight = 1.0  # share of the tier's deadline relative to the other runs of the property (heavy enumerations get more)

    def build(self):
        name = os.path.basename(self.src).replace(".c", "")
        return build.harness(self.cfg, self.common + [self.src] + self.extra_sources, name, extra_cflags=self.extra_cflags, extra_ldflags=self.extra_ldflags, instrument_harness=self.instrument_harness)

    def describe(self):
        return dict(config=dict(self.cfg), src=self.src, args=self.args, label=self.label)


def load_known():
    p = os.path.join(VERIF, "known_findings.json")
    if not os.path.exists(p):
        return []
    return json.load(open(p)).get("findings", [])


def match_known(pid, f, known):
    for k in known:
        if k.get("property") != pid or k.get("status") != "known":
            continue
        m = k.get("match", {})
        if all(fnmatch.fnmatchcase(str(f.get(key, "")), pat) for key, pat in m.items()):
            return k
    return None


def exec_harness(exe, args, env_extra, errdir, timeout=None):
    env = dict(os.environ); env.update(SAN_ENV); env.update(env_extra)
    out = os.path.join(errdir, "result.json")
    if os.path.exists(out):
        os.unlink(out)
    cmd = [exe] + args + ["--out=" + out, "--errdir=" + errdir]
    r = subprocess.run(cmd, capture_output=True, text=True, env=env, timeout=timeout)
    if r.returncode != 0 or not os.path.exists(out):
        raise HarnessError("harness %s failed (status %s): %s %s" % (" ".join(cmd), r.returncode, r.stdout[-2000:], r.stderr[-2000:]))
    return json.load(open(out))


def run_property(pid, spec, tier, seed, deadline=None):
    """spec: dict(level, runs(tier)->[Run], rule, assumptions, design_ref, nontrivial_rule)"""
    t0 = time.time()
    known = load_known()
    os.makedirs(os.path.join(VERIF, "out", "replay"), exist_ok=True)
    EVD = os.environ.get("VERIF_EVIDENCE_DIR", os.path.join(VERIF, "evidence")); os.makedirs(EVD, exist_ok=True)
    runs = spec["runs"](tier)
    if tier == "thorough":  # the big enumerations get a larger share of the deadline than the threshold / structure runs
        for r in runs:
            if any(a in r.args for a in ("--mode=lift", "--mode=tiny", "--mode=grid", "--mode=gl")) or (r.kind == "fsx" and any(a.startswith("--depth=7") for a in r.args)): r.weight = max(getattr(r, 'weight', 1.0), 6.0)
    total_deadline = deadline if deadline is not None else (int(os.environ.get("VERIF_DEADLINE_S", "1200")) if tier == "thorough" else int(os.environ.get("VERIF_QUICK_DEADLINE_S", "600")))
    results = []
    scratch = tempfile.mkdtemp(prefix="m4ri-verif-run-")
    violations, known_hits, lines = [], {}, []
    try:
        # build everything first (parallel builds happen inside build.lib)
        from concurrent.futures import ThreadPoolExecutor
        with ThreadPoolExecutor(4) as ex:
            exes = list(ex.map(lambda r: r.build(), runs))
        t_runs = time.time()  # the tier's deadline budgets the exploration, not the (cached) builds that precede it
        for i, (r, exe) in enumerate(zip(runs, exes)):
            remaining = total_deadline - (time.time() - t_runs)
            if remaining < 5:
                results.append(dict(run=r.describe(), skipped=True, deadline_hit=1, executed=0, total_cases=0, failures=[], counters={}, samples=[], distinct_nontrivial=0))
                continue
            # share of the remaining budget: proportional to runs left
            wsum = sum(getattr(x, 'weight', 1.0) for x in runs[i:])
            share = max(5, int(remaining * getattr(r, 'weight', 1.0) / wsum * 1.3)) if len(runs) - i > 1 else int(remaining)
            args = r.args + ["--tier=" + tier, "--seed=%d" % seed, "--deadline=%d" % min(share, int(remaining))]
            ed = os.path.join(scratch, "r%d" % i); os.makedirs(ed)
            res = exec_harness(exe, args, r.env, ed)
            res["run"] = r.describe(); res["run"]["index"] = i; res["_run"] = r; res["_exe"] = exe
            results.append(res)
        # failures
        seen_sig = {}
        unconfirmed = []
        slow_cases = []
        for res in results:
            for f in res.get("failures", []):
                key = (f["sig"], f["clause"])
                k = match_known(pid, f, known)
                if k is not None:
                    kh = known_hits.setdefault(k["id"], dict(entry=k, count=0, first=f))
                    kh["count"] += 1
                    continue
                if key in seen_sig:
                    seen_sig[key]["count"] += 1
                    continue
                seen_sig[key] = dict(f=f, res=res, count=1)
        for key, v in seen_sig.items():
            f, res = v["f"], v["res"]
            r = res["_run"]
            # confirm by replaying the single case twice in fresh processes
            if r.kind == "aux":
                # auxiliary (sampling) pass: counts only if it shows again in a second complete run
                ed = os.path.join(scratch, "auxrep"); shutil.rmtree(ed, ignore_errors=True); os.makedirs(ed)
                rr = exec_harness(res["_exe"], r.args + ["--tier=" + tier], r.env, ed)
                if not any((x["sig"], x["clause"]) == key for x in rr.get("failures", [])):
                    lines.append("AUX-UNCONFIRMED property=%s %s | %s : %s (sampling pass, did not show again; not counted)" % (pid, f["sig"], f["clause"], f["msg"]))
                    continue
                n = len(violations)
                path = os.path.join(VERIF, "out", "replay", "%s-%d.json" % (pid, n))
                json.dump(dict(property=pid, tier=tier, seed=seed, engine="aux", run=res["run"], clause=f["clause"], msg=f["msg"], replay_args=[], replay_cmd="bin/replay %s" % path), open(path, "w"), indent=1)
                violations.append(dict(sig=f["sig"], clause=f["clause"], id=f["id"], msg=f["msg"], count=v["count"], replay=path))
                lines.append("VIOLATION property=%s replay=%s" % (pid, path))
                lines.append("  # %s | %s | %s : %s" % (f["sig"], f["clause"], f["id"], f["msg"]))
                continue
            if r.kind == "icb":
                sidx, rest = f["id"].split(":", 1)
                sched = f["id"].split("|schedule=", 1)[-1]
                sched = "" if sched == "(default)" else sched
                outs = []
                for rep in range(2):
                    pr = subprocess.run([res["_exe"]] + r.args + ["--replay=%s:%s" % (sidx, sched)], capture_output=True, text=True)
                    outs.append((pr.returncode, pr.stdout.splitlines()[0] if pr.stdout else ""))
                if outs[0] != outs[1] or outs[0][0] != 1:
                    unconfirmed.append("replay of schedule %s did not reproduce the failure %s deterministically: %r" % (f["id"][:200], key, outs)); continue
                n = len(violations)
                path = os.path.join(VERIF, "out", "replay", "%s-%d.json" % (pid, n))
                json.dump(dict(property=pid, tier=tier, seed=seed, engine="icb", run=res["run"], scenario=f["id"].split("|schedule=")[0], schedule=sched, clause=f["clause"], msg=f["msg"], occurrences=v["count"],
                               replay_args=["--replay=%s:%s" % (sidx, sched)], replay_cmd="bin/replay %s" % path), open(path, "w"), indent=1)
                violations.append(dict(sig=f["sig"], clause=f["clause"], id=f["id"][:300], msg=f["msg"], count=v["count"], replay=path))
                lines.append("VIOLATION property=%s replay=%s" % (pid, path))
                lines.append("  # %s | %s | %s : %s (x%d)" % (f["sig"], f["clause"], f["id"][:200], f["msg"], v["count"]))
                continue
            if r.kind == "fsx":
                outs = []
                for rep in range(2):
                    env = dict(os.environ); env.update(SAN_ENV)
                    pr = subprocess.run([res["_exe"]] + r.args + (["--replay=" + f["id"].split("start=", 1)[-1]] if f["id"].startswith("start=") else ["--replay-scripted=1"]), capture_output=True, text=True, env=env)
                    outs.append((pr.returncode != 0, sorted(l for l in pr.stdout.splitlines() if l.startswith("FAIL"))[:3]))
                if outs[0] != outs[1] or not outs[0][0]:
                    unconfirmed.append("replay of path %s did not reproduce the failure %s deterministically: %r" % (f["id"], key, outs)); continue
                n = len(violations)
                path = os.path.join(VERIF, "out", "replay", "%s-%d.json" % (pid, n))
                json.dump(dict(property=pid, tier=tier, seed=seed, engine="fsx", run=res["run"], path=f["id"], clause=f["clause"], msg=f["msg"], occurrences=v["count"],
                               replay_args=(["--replay=" + f["id"].split("start=", 1)[-1]] if f["id"].startswith("start=") else ["--replay-scripted=1"]), replay_cmd="bin/replay %s" % path), open(path, "w"), indent=1)
                violations.append(dict(sig=f["sig"], clause=f["clause"], id=f["id"], msg=f["msg"], count=v["count"], replay=path))
                lines.append("VIOLATION property=%s replay=%s" % (pid, path))
                lines.append("  # %s | %s | %s : %s (x%d)" % (f["sig"], f["clause"], f["id"], f["msg"], v["count"]))
                continue
            reps = []
            for rep in range(2):
                ed = os.path.join(scratch, "rep"); shutil.rmtree(ed, ignore_errors=True); os.makedirs(ed)
                rr = exec_harness(res["_exe"], r.args + ["--tier=" + tier, "--seed=%d" % seed, "--replay-index=%d" % f["index"]], r.env, ed)
                reps.append(sorted((x["sig"], x["clause"], x["id"]) for x in rr.get("failures", [])))
            if f["clause"] == "hang" and reps[0] == reps[1] and not any(x[2] == f["id"] for x in reps[0]):
                # a case killed by the per-case time limit that completes without any failure when re-run alone (twice) was slow
                # because of machine load, not hanging: not a finding and not a harness problem
                slow_cases.append(f["id"]); continue
            if reps[0] != reps[1] or (f["sig"], f["clause"], f["id"]) not in reps[0]:
                unconfirmed.append("replay of case %d (%s) did not reproduce the failure %s deterministically: %r" % (f["index"], f["id"], key, reps)); continue
            n = len(violations)
            path = os.path.join(VERIF, "out", "replay", "%s-%d.json" % (pid, n))
            json.dump(dict(property=pid, tier=tier, seed=seed, engine="bex", run=res["run"], case_index=f["index"], case_id=f["id"], sig=f["sig"], clause=f["clause"], msg=f["msg"],
                           occurrences=v["count"], replay_cmd="bin/replay %s" % path), open(path, "w"), indent=1)
            violations.append(dict(sig=f["sig"], clause=f["clause"], id=f["id"], msg=f["msg"], count=v["count"], replay=path))
            lines.append("VIOLATION property=%s replay=%s" % (pid, path))
            lines.append("  # %s | %s | %s : %s (x%d)" % (f["sig"], f["clause"], f["id"], f["msg"], v["count"]))
        # a reported failure that does not reproduce in isolation is never turned into a VIOLATION; if nothing else is confirmed
        # the check has no verdict (HARNESS-ERROR, exit 2); next to confirmed violations it is only mentioned
        if unconfirmed and not violations:
            raise HarnessError(unconfirmed[0])
        for u in slow_cases[:5]:
            lines.append("NOTE: case exceeded the per-case time limit under load and completed cleanly when re-run alone: " + u[:200])
        for u in unconfirmed[:5]:
            lines.append("UNCONFIRMED (not counted): " + u[:300])
        for xf in (spec["cross_check"](results) if spec.get("cross_check") else []):
            n = len(violations)
            path = os.path.join(VERIF, "out", "replay", "%s-%d.json" % (pid, n))
            json.dump(dict(property=pid, tier=tier, seed=seed, cross_run=xf, replay_cmd="bin/check %s --tier %s" % (pid, tier)), open(path, "w"), indent=1)
            violations.append(dict(sig=xf["sig"], clause=xf["clause"], id=xf["id"], msg=xf["msg"], count=1, replay=path))
            lines.append("VIOLATION property=%s replay=%s" % (pid, path))
            lines.append("  # %s | %s | %s : %s" % (xf["sig"], xf["clause"], xf["id"], xf["msg"]))
        for kid, kh in known_hits.items():
            lines.append("KNOWN-FINDING: property=%s %s [%s] (re-observed %d times, e.g. %s)" % (pid, kh["entry"].get("what", kid), kid, kh["count"], kh["first"]["id"]))
    finally:
        shutil.rmtree(scratch, ignore_errors=True)
    ev = make_evidence(pid, spec, tier, seed, results, violations, known_hits, time.time() - t0)
    json.dump(ev, open(os.path.join(EVD, pid + ".json"), "w"), indent=1)
    for l in lines:
        print(l)
    cov = ev["coverage"]
    print("%s %s: evaluations=%d distinct_nontrivial=%d runs=%d exhaustive=%s violations=%d known=%d wall=%.1fs" % (
        pid, tier, cov.get("evaluations", 0), cov.get("distinct_nontrivial", 0), len(results), cov.get("exhaustive"), len(violations), len(known_hits), time.time() - t0))
    return 1 if violations else 0


def make_evidence(pid, spec, tier, seed, results, violations, known_hits, wall):
    groups = {}
    evals = 0; cases = 0; counters = {}; samples = []; capped = False; total_cases = 0
    for res in results:
        g = res["run"]["label"] if res.get("_run") is None else res["_run"].group
        groups[g] = max(groups.get(g, 0), res.get("distinct_nontrivial", 0))
        c = res.get("counters", {})
        evals += c.get("evals", res.get("executed", 0))
        cases += res.get("executed", 0); total_cases += res.get("total_cases", 0)
        for k, v in c.items():
            counters[k] = counters.get(k, 0) + v
        for s in res.get("samples", [])[:4]:
            if len(samples) < 12:
                samples.append(s)
        if res.get("deadline_hit") or res.get("skipped") or res.get("set_saturated"):
            capped = capped or bool(res.get("deadline_hit") or res.get("skipped"))
    cov = dict(evaluations=int(evals), cases_executed=int(cases), cases_enumerated=int(total_cases), distinct_nontrivial=int(sum(groups.values())),
               rule=spec["rule"], samples=samples or ["(none)"], exhaustive=(not capped and cases == total_cases),
               counters=counters,
               runs=[dict(label=r["run"]["label"], executed=r.get("executed", 0), total_cases=r.get("total_cases", 0), deadline_hit=r.get("deadline_hit", 0),
                          crashes=r.get("crashes", 0), selfcheck=r.get("selfcheck", 0), wall_s=r.get("wall_s", 0), set_saturated=r.get("set_saturated", 0)) for r in results],
               caps_hit=[r["run"]["label"] for r in results if r.get("deadline_hit") or r.get("skipped")],
               known_findings_reobserved=[dict(id=k, count=v["count"]) for k, v in known_hits.items()],
               violation_list=violations[:20])
    if spec["level"] == "model_checking":
        for k in ("states", "transitions", "traces_validated_against_impl"):
            cov[k] = int(counters.get(k, 0))
    return dict(property_id=pid, tier=tier, seed=int(seed), level=spec["level"], coverage=cov, assumptions=spec.get("assumptions", []),
                wall_s=round(wall, 3), violations=len(violations))
