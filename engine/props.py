"""Per-property run lists (which configurations, which harness, which arguments) and evidence texts."""
from .build import Config, MINCACHE
from .driver import Run

HOST = dict()                      # default cache sizes of the pinned build
def C(**kw): return Config(**kw)

PROPS = {}
HOOK_COMMITS = ['ffbf043', 'f180a38', 'fef748c']

PROPS["C19"] = dict(
    level="exploration",
    runs=lambda tier: [Run(C(), "harness/p_c19.c", group="c19"), Run(C(sse2=0, simd="native", **MINCACHE), "harness/p_c19.c", group="c19"),
                       Run(C(), "harness/p_c19.c", ["--mode=reinit"], group="after-fini-init")],
    rule="finite domains enumerated completely: all 2^k code-book entries k=1..16; mzd_make_table for k=1..10(12) x 20 widths x start columns x row offsets x 4 fills, every x in 0..2^k-1 compared with the reference sum of the selected rows; parity64 on all 4096 single-bit buffers, all bit pairs per word, dense buffers; all (n,offset) masks; bit reversal; lesser_LSB on all pairs of {0, single, two-bit}; spread/shrink for every strictly increasing Q of length<=4 and progressions of length 5..16. 'evaluations' counts individual table entries / function evaluations; a case is non-trivial when its input is not all-zero; distinct = distinct (input digest, parameters).",
    level_text="Complete enumeration of the finite domains the statement names (exhaustive:true): every code-book entry, every table index, every mask argument, complete bit bases of the linear word kernels - executed on the real functions and compared with a bit-loop reference.",
    level_note="Trusted: the harness reference loops, clang 14 / x86-64 code generation. Linear kernels (parity, reversal, spread/shrink) are checked on complete bases plus fixed dense words, not on all 2^64 words.",
    technique="exhaustive enumeration of finite domains on the real code (bounded-exhaustive explorer)",
    assumptions=["clang 14 -O1 ASan+UBSan build of the current /repo tree; x86-64", "the reference model (harness/vx.c) is validated against a byte-per-entry implementation at every start"],
)

MIN = MINCACHE
def _w(run, weight):
    run.weight = weight
    return run

def _omp_run(pid, kinds, tier, mincache=False):
    """OpenMP-build run of a sequential property: the C16 scenarios of the given kinds under the ICB scheduler + mini-GOMP
    (result equals the reference model for every explored schedule, happens-before race detection)."""
    # the scenario list of C16's quick tier restricted to this property's entry points; C16 itself runs the full team range and
    # the larger shapes (its thorough tier needs the whole budget, so the copies here stay small enough to complete)
    args = ["--bound=1", "--as=" + pid, "--kinds=" + hex(kinds), "--max-team=" + ("5" if tier == "thorough" else "4"), "--list=quick"]
    if mincache:  # cache-derived recursion thresholds are reached at the scenario sizes (600..700) only in a small-cache build
        return _icb(C(openmp=1, instr="tsancb", opt="-O1", **MIN), "icb/h_c16.c", args, "openmp-build-icb-min-cache")
    return _icb(C(openmp=1, instr="tsancb", opt="-O1"), "icb/h_c16.c", args, "openmp-build-icb")

def _c01_runs(tier):
    rs = []
    rs.append(Run(C(), "harness/p_c01.c", ["--mode=alias"], group="host-alias"))
    rs.append(Run(C(), "harness/p_c01.c", ["--mode=djb"], group="host-djb"))
    rs.append(Run(C(sse2=0, **MIN), "harness/p_c01.c", ["--mode=djb"], group="min-djb"))
    for mode in ("grid", "split", "big"):
        if mode != "big":  # the block / cutoff thresholds of the host's cache sizes are beyond the bounded sizes: the run would be empty
            rs.append(_w(Run(C(), "harness/p_c01.c", ["--mode=" + mode], group="host-" + mode), 8 if (mode == "grid" and tier == "thorough") else 1))
        rs.append(_w(Run(C(sse2=0, **MIN), "harness/p_c01.c", ["--mode=" + mode], group="min-" + mode), 8 if (mode == "grid" and tier == "thorough") else 1))
    rs.append(_omp_run("C01", 0x402f, tier))
    return rs

PROPS["C01"] = dict(
    level="exploration", runs=_c01_runs,
    rule="(DJB: djb_compile + djb_apply_mzd on a zeroed target for A in 11 x 12 shapes (rows up to 130, 1..4-word rows) x 10 patterns and all single-entry A of small shapes, V of 14 widths (1..10 words: every residue of the word-wise row addition, with and without SSE2), compiled program checked for in-range row indices) + (OpenMP build: the multi-core front ends, Strassen and M4RM products of C16's scenario list run under the ICB scheduler with the mini-GOMP runtime for teams 1..4 (thorough 1..5): result equals the reference model on every explored schedule, happens-before race detection) + complete product of declared alphabets: multiplication routes x parameters (k in {-1..17 sample incl. all of 2..8}, cutoffs) x shape triples x operand pattern pairs (dense pairs, sparse, identity, zero, and complete unit bases by bilinearity: l cyclic one-entry-per-row matrices for A, l for B), plus 'alias' cases where the two factors are distinct views of ONE parent matrix (common top-left corner / side by side / overlapping rows) for all shape triples of a boundary set; a case is (route, parameter, shape, patterns); non-trivial = the reference product is non-zero; distinct = distinct (operand digest, route, parameter)",
    level_text="Bounded-exhaustive differential exploration: every multiplication entry point is executed on the complete Cartesian product of finite shape/pattern/parameter alphabets (all residues around 64-bit words, Strassen split limits, cubic/table switches) in a default and a minimum-cache/no-SSE2 build, and every result is compared bit for bit with an independent reference product; factors must be unchanged and padding zero; ASan/UBSan on.",
    level_note="Bounded: dimensions <= ~1400, fixed pattern alphabets (unit bases are complete only under bilinearity, which is assumed, not proved). OpenMP build: run under ICB here (quick: teams 2..4), the full team range in C16.",
    technique="bounded-exhaustive enumeration of input/parameter alphabets on the real code against a reference model",
    assumptions=["reference product in harness/vx.c (validated against a byte-per-entry triple loop at start-up)", "clang 14 ASan+UBSan builds: host cache sizes with SSE2, and L1/L2/L3 = 4K/32K/64K without SSE2"],
)

def _c02_runs(tier):
    rs = []
    for mode in ("tiny", "lift", "struct"):
        rs.append(Run(C(), "harness/p_c02.c", ["--mode=" + mode, "--setbits=25"], group="host-" + mode))
    rs.append(Run(C(sse2=0, **MIN), "harness/p_c02.c", ["--mode=lift", "--setbits=25"] + ([] if tier == "thorough" else ["--lift-b=65"]), group="host-lift"))
    rs.append(Run(C(sse2=0, **MIN), "harness/p_c02.c", ["--mode=struct"], group="host-struct"))
    rs.append(Run(C(**MIN), "harness/p_c02.c", ["--mode=big"], group="min-big"))
    rs.append(_omp_run("C02", 0x410, tier))  # incl. PLUQ-based elimination of wide operands
    rs.append(Run(C(**MIN), "harness/p_c02.c", ["--mode=rec"], group="min-rec"))
    return rs

PROPS["C02"] = dict(
    level="exploration", runs=_c02_runs,
    rule="(OpenMP build: mzd_echelonize_m4ri and mzd_echelonize_pluq on > 512-row rank-deficient inputs run under the ICB scheduler with the mini-GOMP runtime for teams 1..4 (thorough 1..5): result equals the reference model on every explored schedule, happens-before race detection) + entry points {naive, gauss_delayed, M4RI (k alphabet), PLUQ-based, hybrid, hybrid with every threshold} x full in {0,1} x inputs: TINY(N) = ALL matrices with <= N entries of every shape (N=14 quick / 18 thorough), LIFT = Kronecker lifts of ALL binary matrices with <= 8 (thorough 11) entries by blocks {7,33,65,(1,64)} x {identity, dense invertible, all-ones} x {plain, left-, both-side densified}, ECH = echelon forms over ALL subsets of 10 boundary pivot columns, RK = low-rank products on boundary shapes, BND = boundary shapes x structured patterns, HYB = sparse-start/dense-end block matrices with > 256 sparse columns on which the density-switching hybrid changes algorithm in the middle (every threshold in {0,0.05,0.1,0.2,0.25,0.5,1,2} x k in {0,3,6}), plus threshold shapes of the min-cache build; non-trivial = rank > 0; distinct = distinct (input digest, entry point, full, k, threshold)",
    level_text="Bounded-exhaustive differential exploration: every echelonisation entry point on every member of complete small-matrix domains and of structured families that place every block rank profile across word and table-block boundaries; rank, exact RREF, echelon shape, row space and top-reduction are compared with an independent Gaussian elimination.",
    level_note="Bounded: all matrices only up to 14/18 entries; beyond that lifts of exhaustive cores and fixed families up to 1300 columns. Hybrid density heuristic is only entered for matrices with > 256 columns in the loop and at the start for dense inputs.",
    technique="bounded-exhaustive enumeration (all small matrices, all lifted rank profiles) on the real code against a reference Gaussian elimination",
    assumptions=["reference elimination in harness/vx.c validated against a byte-per-entry Gauss-Jordan at start-up", "clang 14 ASan+UBSan builds: host cache sizes with SSE2, min-cache with and without SSE2"],
)

def _c03_runs(tier):
    rs = []
    for mode in ("tiny", "lift", "struct"):
        rs.append(Run(C(), "harness/p_c03.c", ["--mode=" + mode, "--setbits=25"], group="host-" + mode))
    rs.append(Run(C(sse2=0, **MIN), "harness/p_c03.c", ["--mode=struct"], group="host-struct"))
    rs.append(Run(C(sse2=0, **MIN), "harness/p_c03.c", ["--mode=lift", "--setbits=25"] + ([] if tier == "thorough" else ["--lift-b=65"]), group="host-lift"))
    rs.append(Run(C(**MIN), "harness/p_c03.c", ["--mode=rec"], group="min-rec"))
    return rs

PROPS["C03"] = dict(
    level="exploration", runs=_c03_runs,
    rule="variants {mzd_ple, mzd_pluq (cutoffs), _mzd_ple_naive, _mzd_pluq_naive, _mzd_ple_russian, _mzd_pluq_russian (k alphabet 0..9)} x junk initial P,Q {identity, reversed, INT_MAX, 0xA5A5A5A5, pseudo-random} x inputs TINY(13/16) (ALL matrices up to that many entries), LIFT (all lifted rank profiles, cores of <= 7 (thorough 10) entries), ECH/RK/BND, and in the min-cache build REC = shapes just above the PLE cutoff with every (r1,r2) class incl. r1 % 64 == 0, r1 < n1, r2 >= 128; non-trivial = rank > 0; distinct = distinct (input digest, variant, parameter, junk)",
    level_text="Bounded-exhaustive differential exploration: every PLE/PLUQ variant on complete small-matrix domains and structured rank-profile families, in builds whose cache sizes make the block-recursive algorithm (Schur complement, L compression, P/Q fix-up) reachable; the oracle reconstructs P*L*U*Q (resp. P*L*E) with an independent implementation of the LAPACK swap conventions and checks rank, profile, LAPACK form and zero storage outside L/U.",
    level_note="Bounded as C02. The recursion is entered only in the min-cache build (8192-word cutoff); the host configuration needs > 2^19 words and is covered through its base case only.",
    technique="bounded-exhaustive enumeration (all small matrices, lifted and block rank profiles) on the real code with an independent reconstruction oracle",
    assumptions=["reference elimination and permutation conventions in harness (validated in DESIGN appendix A)", "clang 14 ASan+UBSan builds: host, min-cache with/without SSE2"],
)

def _c06_runs(tier):
    rs = [Run(C(), "harness/p_c06.c", ["--mode=tiny", "--setbits=24"], group="tiny"),
          Run(C(), "harness/p_c06.c", ["--mode=lift"], group="lift"),
          Run(C(), "harness/p_c06.c", ["--mode=struct"], group="struct"),
          Run(C(sse2=0, **MIN), "harness/p_c06.c", ["--mode=struct"], group="struct"),
          Run(C(**MIN), "harness/p_c06.c", ["--mode=rec"], group="rec")]
    if tier == "thorough":
        rs.append(Run(C(sse2=0, **MIN), "harness/p_c06.c", ["--mode=lift"], group="lift"))
    return rs

PROPS["C06"] = dict(
    level="exploration", runs=_c06_runs,
    rule="variants {mzd_solve_left(check=1), mzd_pluq + mzd_pluq_solve_left(check=1), mzd_solve_left(check=0) on consistent systems} x ALL systems (A,B) with A of <= 9 (12) entries and B (max(m,n) x w) of <= 8 (thorough 9) entries - every shape m<n, m=n, m>n, every rank, every consistent and inconsistent right-hand side incl. inconsistency only in a padding row - plus lifted/echelon/low-rank/boundary/recursive-PLE systems B = A*X0 with every single bit flip of B in {row 0, middle row, last row of A, first/second/last padding row} x {first,last column}; non-trivial = A or B non-zero; distinct = distinct (A, B, variant, cutoff)",
    level_text="Bounded-exhaustive differential exploration: all small linear systems (complete enumeration of A and B) and structured larger ones are solved by the real routines; the verdict is compared with a reference rank test on [A;0 | B] and every returned solution is multiplied back.",
    level_note="Bounded: complete enumeration only for systems with <= 9+8 (12+10) entries; larger systems come from the structured families with single-bit perturbations of B.",
    technique="bounded-exhaustive enumeration of all small systems on the real code against a reference solvability test",
    assumptions=["reference elimination in harness/vx.c", "clang 14 ASan+UBSan builds: host, min-cache"],
)

def _c07_runs(tier):
    return [Run(C(), "harness/p_c07.c", ["--mode=tiny", "--setbits=24"], group="tiny"),
            Run(C(), "harness/p_c07.c", ["--mode=lift"], group="lift"),
            Run(C(sse2=0, **MIN), "harness/p_c07.c", ["--mode=lift"] + ([] if tier == "thorough" else ["--lift-b=65"]), group="lift"),
            Run(C(), "harness/p_c07.c", ["--mode=struct"], group="struct"),
            Run(C(sse2=0, **MIN), "harness/p_c07.c", ["--mode=struct"], group="struct"),
            Run(C(**MIN), "harness/p_c07.c", ["--mode=rec"], group="rec"),
            _omp_run("C07", 0x2000, tier)]

PROPS["C07"] = dict(
    level="exploration", runs=_c07_runs,
    rule="(OpenMP build: mzd_kernel_left_pluq on wide rank-deficient inputs (150 x 700, 300 x 900) under the ICB scheduler with the mini-GOMP runtime, teams 2 / 4: NULL iff trivial, dimensions, A*K = 0, independent columns on every explored schedule, happens-before race detection) + mzd_kernel_left_pluq x cutoffs x inputs: TINY(16/20) = ALL matrices with that many entries, LIFT = all lifted rank profiles (<= 9/12 core entries), ECH (all subsets of 10 boundary pivot columns), RK, BND, and in the min-cache build REC = shapes above the PLE cutoff with every (r1,r2,placement) class incl. pivot gaps in the right half; non-trivial = 0 < rank < ncols (a non-trivial kernel exists); distinct = distinct (input digest, cutoff)",
    level_text="Bounded-exhaustive differential exploration of the kernel routine over complete small-matrix domains and structured rank-profile families, including the block-recursive PLE route; NULL iff full column rank, dimensions, A*K = 0 for the original A and rank(K) = n - r are decided by the reference model.",
    level_note="Bounded as C02/C03.",
    technique="bounded-exhaustive enumeration (all small matrices, lifted and block rank profiles) on the real code against a reference null-space test",
    assumptions=["reference rank / product in harness/vx.c", "clang 14 ASan+UBSan builds: host, min-cache with/without SSE2"],
)

def _c04_runs(tier):
    rs = []
    for mode in ("small", "units", "dense", "widths"):
        rs.append(Run(C(), "harness/p_c04.c", ["--mode=" + mode], group="host-" + mode))
    rs.append(Run(C(sse2=0, **MIN), "harness/p_c04.c", ["--mode=widths"], group="min-widths"))
    rs.append(Run(C(sse2=0, **MIN), "harness/p_c04.c", ["--mode=dense"], group="host-dense"))
    rs.append(Run(C(**MIN), "harness/p_c04.c", ["--mode=big"], group="min-big"))
    # a cache size whose derived block size (724) is not a multiple of 64: split points of the recursive solves fall inside words
    rs.append(Run(C(L1=4096, L2=32768, L3=524288), "harness/p_c04.c", ["--mode=big"], group="L3-512K-big"))
    if tier == "thorough":
        rs.append(Run(C(**MIN), "harness/p_c04.c", ["--mode=units"], group="host-units"))
    rs.append(_omp_run("C04", 0x3c0, tier)); rs.append(_omp_run("C04", 0x3c0, tier, mincache=True))
    return rs

PROPS["C04"] = dict(
    level="exploration", runs=_c04_runs,
    rule="(OpenMP build (host and min-cache configuration): the four triangular solves with n = 600/650 (thorough also 1100) run under the ICB scheduler with the mini-GOMP runtime for teams 1..4 (thorough 1..5): result equals the reference model on every explored schedule, happens-before race detection) + variants {4 public wrappers x cutoffs, 4 _mzd_ cores, 2 Four-Russians cores x k in 0..8} x opposite-triangle fill {zeros, ones, pseudo-random} x T in {ALL unit-triangular matrices n <= 5 (6), a single off-diagonal entry at every position (n up to 66 / 130), full triangle, PR triangles of three densities} x n around word boundaries and the recursion thresholds of the build x B widths {1,2,63,64,65,129,n}; non-trivial = B non-zero; distinct = distinct (T, B, variant, parameter)",
    level_text="Bounded-exhaustive differential exploration of the four triangular solves: complete enumeration of small triangular matrices and of single-entry positions, structured and dense triangles at every size class (base case <= 64, Four-Russians, recursion in the min-cache build), always with three different contents of the unused triangle; the oracle multiplies the named triangle by the result with the reference product.",
    level_note="Bounded: n <= ~600; dense triangles are fixed pseudo-random patterns.",
    technique="bounded-exhaustive enumeration on the real code against a reference product (T_named * X == B)",
    assumptions=["reference product in harness/vx.c", "clang 14 ASan+UBSan builds: host, min-cache with/without SSE2"],
)

def _c05_runs(tier):
    rs = []
    for mode in ("gl", "ut", "lift", "bnd"):
        rs.append(Run(C(), "harness/p_c05.c", ["--mode=" + mode, "--setbits=24"], group="host-" + mode))
    rs.append(Run(C(sse2=0, **MIN), "harness/p_c05.c", ["--mode=bnd"], group="host-bnd"))
    rs.append(Run(C(**MIN), "harness/p_c05.c", ["--mode=big"], group="min-big"))
    rs.append(Run(C(sse2=0, **MIN), "harness/p_c05.c", ["--mode=big"], group="min-big"))
    if tier == "thorough":
        rs.append(Run(C(sse2=0, **MIN), "harness/p_c05.c", ["--mode=lift"], group="host-lift"))
    rs.append(_omp_run("C05", 0x1800, tier)); rs.append(_omp_run("C05", 0x1800, tier, mincache=True))
    return rs

PROPS["C05"] = dict(
    level="exploration", runs=_c05_runs,
    rule="(OpenMP build (host and min-cache configuration, the latter reaches the recursive branches): mzd_inv_m4ri with n = 600 (thorough also 530, k = 3), mzd_trtri_upper with n = 700 / 400 run under the ICB scheduler with the mini-GOMP runtime for teams 1..4 (thorough 1..5): result equals the reference model on every explored schedule, happens-before race detection) + routines {mzd_inv_m4ri with NULL / supplied destination x k in 0..10, mzd_invert_naive with NULL / supplied destination, mzd_trtri_upper, mzd_trtri_upper_russian x k in 0..8} x inputs: ALL of GL_n(2) for n <= 4 (5), ALL unit upper triangular matrices n <= 6 (7), Kronecker lifts of all small unit-triangular / invertible cores by blocks {7,33,(64),65}, dense invertible / PR unit-triangular / rotation / full-triangle matrices at boundary sizes, and the recursive trtri branch in the min-cache build (n >= 363); non-trivial = n > 1; distinct = distinct (input, routine, k)",
    level_text="Bounded-exhaustive differential exploration of the inversion routines: complete enumeration of the small general linear groups and of small unit-triangular matrices, their lifts across word boundaries, and boundary/threshold sizes; A*B = B*A = I and equality with the reference inverse are checked for every case.",
    level_note="Bounded: complete enumeration only for n <= 4 (5) resp. 6 (7); larger inputs are lifts and fixed pseudo-random matrices up to n ~ 770.",
    technique="bounded-exhaustive enumeration (all of GL_n(2) for small n, all small unit-triangular matrices, lifts) on the real code against a reference inverse",
    assumptions=["reference product / inverse in harness/vx.c", "clang 14 ASan+UBSan builds: host, min-cache with/without SSE2"],
)

def _c08_runs(tier):
    rs = []
    for mode in ("add", "transpose", "transpose_big", "transpose_views", "copy", "submatrix", "concat"):
        rs.append(Run(C(), "harness/p_c08.c", ["--mode=" + mode, "--setbits=24"], group=mode))
    for mode in ("add", "transpose_big") + (("transpose", "transpose_views", "copy", "submatrix", "concat") if tier == "thorough" else ()):
        rs.append(Run(C(sse2=0, simd="native", **MIN), "harness/p_c08.c", ["--mode=" + mode, "--setbits=24"], group=mode))
    if tier == "thorough":
        rs.append(Run(C(instr="plain"), "harness/p_c08.c", ["--mode=transpose_units", "--setbits=27"], group="transpose_units"))
    return rs

PROPS["C08"] = dict(
    level="exploration", runs=_c08_runs,
    rule="mzd_add/_mzd_add x 6 aliasing forms x rows {1,2,3} x every ncols in 1..130 and 64w+{-1,0,1} (w up to 10) x {all label planes LBL(b) for A resp. complemented planes for B (complete routing), ones+ones, PR pairs}; mzd_transpose for EVERY shape in 1..130 x 1..130 (all label planes and their complements; thorough additionally every single-entry source of every shape = 7.25e7 cases) with NULL/supplied destinations and transpose-twice, plus shapes up to 1300 (64-blocks, tails, recursive splits); mzd_transpose with a VIEW as source resp. as destination for every shape in 1..130 x 1..130 (quick: two thirds of the shapes above 70 x 70 skipped) and 36 larger shape pairs, 4 placements (row/word offsets, parent continuing inside the view's last word, view of a view), parent filled with ones / pseudo-random bits, parent compared word by word outside the view; mzd_copy, mzd_copy_row, mzd_set_ui over the same widths; mzd_submatrix for EVERY (startcol, ncols) inside a 200-column source and wide aligned/unaligned cases; mzd_concat for (ncolsA, ncolsB) in 1..130 squared , mzd_stack, mzd_extract_u/l for every n in 1..130 and non-square shapes; supplied destinations are pre-filled with ones; non-trivial = source not all-zero; distinct = distinct (operation, form, shape, pattern)",
    level_text="Bounded-exhaustive exploration of the data-movement routines: every shape residue, every width-specialised loop, every transpose kernel size class and every sub-matrix offset pair is executed; label-plane patterns and their complements determine the complete input-bit to output-bit routing, so 'every source entry at exactly its position and nothing else' is decided for each shape, not sampled.",
    level_note="Bounded: shapes up to 130 x 130 exhaustively, selected shapes up to 1300; routing completeness relies on the operations being bit-routing / XOR (a non-linear defect is caught by the ones+ones and dense patterns only).",
    technique="bounded-exhaustive enumeration of shapes/offsets with complete routing bases on the real code against a reference model",
    assumptions=["reference routing in harness/vx.c", "clang 14 ASan+UBSan builds: host with SSE2, min-cache without SSE2 and native SIMD flags"],
)

def _c13_runs(tier):
    rs = []
    for mode in ("colswap", "rows", "views", "bits", "combine", "perm_small", "perm_big", "perm_tail"):
        rs.append(Run(C(), "harness/p_c13.c", ["--mode=" + mode, "--setbits=24"], group=mode))
    for mode in ("rows", "views", "combine", "perm_big") + (("perm_small", "colswap") if tier == "thorough" else ()):
        rs.append(Run(C(sse2=0, **MIN), "harness/p_c13.c", ["--mode=" + mode, "--setbits=24"], group=mode))
    return rs

PROPS["C13"] = dict(
    level="exploration", runs=_c13_runs,
    rule="(views) row swap / row add from a column / row clear from a column / row add / column swap (in a row range) applied to VIEWS of 13 widths (1..11 words) in 5 placements (row and word offsets 0..3, parent continuing inside the last word, view of a view) with parents full of ones / pseudo-random bits: exactly the addressed entries of the view change and no bit of the parent outside it; (owned) mzd_col_swap for EVERY pair (a,b) in [0,n)^2, n in {1,2,63,64,65,130,200}; mzd_col_swap_in_rows for every row range of a 9-row matrix; mzd_row_swap/_mzd_row_swap for every row pair and start block; mzd_row_add_offset / mzd_row_clear_offset for EVERY column offset at 10 widths; mzd_read_bits/xor_bits/clear_bits for every (column, length 1..64) in 6 row widths; write_bit/read_bit at every position; mzd_combine family for every start block (equal remaining widths, in-place and three-operand forms); permutation application (left, left_trans, right, right_trans, even_capped with start rows/cols, trans_tri): ALL 873 LAPACK swap sequences of length <= 6 on dimension L and L+2, and for n in {64,65,127,128,130,200} x lengths {n,n-1,n/2,1}: identity, every single swap, pairs of swaps from a 12-position boundary set, cyclic, reversal, two fixed random sequences; each application is also undone by its transposed counterpart; builds with L1 = 32K and 4K (strip height); non-trivial = the operation moves something; distinct = distinct (operation, parameters, data)",
    level_text="Bounded-exhaustive exploration of the row/column primitives and permutation application: complete enumeration of index pairs, offsets, bit ranges and of all short LAPACK swap sequences, against explicit reference swap loops written in the order the statement gives.",
    level_note="Bounded: dimensions <= 700; long permutations are structured families (all single swaps, boundary pairs) plus two fixed random ones. mzd_and_bits and even_capped(start_col>0) for the non-transposed form are not covered by the statement and not checked; swap targets are kept < P->length.",
    technique="bounded-exhaustive enumeration of index/offset/permutation alphabets on the real code against reference swap loops",
    assumptions=["reference loops in harness", "clang 14 ASan+UBSan builds: host (L1 32K), min-cache without SSE2 (L1 4K)"],
)

def _c17_runs(tier):
    rs = []
    for mode in ("pairs", "order", "pivot"):
        rs.append(Run(C(), "harness/p_c17.c", ["--mode=" + mode, "--setbits=24"], group=mode))
    rs.append(Run(C(sse2=0, simd="native", **MIN), "harness/p_c17.c", ["--mode=pairs"], group="pairs"))
    return rs

PROPS["C17"] = dict(
    level="exploration", runs=_c17_runs,
    rule="for rows {1,2,5} x every ncols in 1..130 and {191,192,193,257} x base {zero, ones, PR} x 4 operand placements (owned, and windows at odd/even word offsets with ones / PR outside the view): EVERY pair (A, A xor U(i,j)) -> mzd_equal false both ways, mzd_cmp non-zero and antisymmetric, is_zero false for single entries, first_zero_row = i+1, read_bit; mzd_cmp zero-iff-equal and transitivity on ALL triples of three sets (16 2x2 matrices, 24 and 27 matrices differing in first/middle/last word); mzd_find_pivot for every single-entry matrix and two-entry matrices (second entry on a boundary column set) on 5 x {1,63,64,65,127,128,129,130,192,200} x start rows x start columns (all for narrow, boundary set for wide) x placements; 'evaluations' counts predicate evaluations; non-trivial = matrix non-zero; distinct = distinct (matrix, placement)",
    level_text="Bounded-exhaustive exploration of the observer functions on complete one-bit-apart families at every position class and on all start positions of the pivot search, for owned matrices and views, against the abstract definitions.",
    level_note="Bounded: shapes up to 5 x 257; two-entry matrices only with the second entry on boundary columns.",
    technique="bounded-exhaustive enumeration (all one-bit-apart pairs, all triples of small sets, all pivot start positions) on the real code against abstract predicates",
    assumptions=["abstract predicates in harness/p_c17.c", "clang 14 ASan+UBSan builds: host, min-cache without SSE2"],
)

def _c09_runs(tier):
    rs = [Run(C(), "harness/p_c09.c", ["--setbits=24"], group="host"),
          Run(C(sse2=0, **MIN), "harness/p_c09.c", ["--setbits=24"], group="host"),
          Run(C(), "harness/p_c09.c", ["--mode=sweep", "--setbits=24"], group="width-sweep"),
          Run(C(sse2=0, **MIN), "harness/p_c09.c", ["--mode=sweep", "--setbits=24"], group="width-sweep")]
    if tier == "thorough":
        rs.append(Run(C(simd="native", **MIN), "harness/p_c09.c", ["--setbits=24"], group="host"))
    return rs

PROPS["C09"] = dict(
    level="exploration", runs=_c09_runs,
    rule="(width sweep) the data-movement, element-wise, observer, small-product, permutation, elimination, PLE/PLUQ, kernel, triangular-solve and triangular-inversion entry points (50 of the 82) on views of EVERY width 1..130 plus 191..320 (heavier ones: a residue subset in quick) (every residue of the column count modulo 64), rows {6,33} (thorough also 1,70), 4 placements incl. view of a view, all operands / first / last operand as views; (registry) op registry (82 entry points: data movement, row/column/bit primitives, permutation application, observers, every multiplication route, echelon forms, PLE/PLUQ, TRSM x4, inversion, solve, kernel, table construction) x its shapes (view widths mod 64 in {0,1,33,63,..}) x EVERY non-empty subset of matrix operands being a window x placement alphabet (row offset {0,1,3}, word offset {0,1,2} incl. odd = 8-mod-16 rows, trailing words {0,1,2}, trailing rows {0,2}; 16 placements quick / all 54 thorough) x surrounding fill {ones, pseudo-random} x 2 data sets; oracle is differential: same call on standalone copies; non-trivial = every case (a window is involved); distinct = distinct (op, shape, window mask, placement, fill, data)",
    level_text="Bounded-exhaustive differential exploration of window operands: every operation x every subset of operands placed as views at every placement class with dirty surroundings; view contents, scalar results and returned matrices must equal those of the same call on standalone copies, every parent bit outside the view (including bits sharing the last word) must be unchanged, read-only operands untouched, and no sanitizer report (odd word offsets exercise the 8-mod-16 vector paths).",
    level_note="Bounded: 2 data sets and 3-13 shapes per operation, dimensions <= 704. The reference is the library itself on standalone operands (whose correctness is the subject of C01-C08, C13, C17).",
    technique="bounded-exhaustive enumeration of operand placements on the real code with a differential oracle (standalone copies) and parent snapshots",
    assumptions=["clang 14 ASan+UBSan builds, baseline x86-64 SIMD flags (legacy-encoded SSE2 faults on misaligned vectors) and no-SSE2 min-cache build"],
)

def _c10_runs(tier):
    return [Run(C(), "harness/p_c10.c", ["--mode=env", "--setbits=24"], group="env"),
            Run(C(), "harness/p_c10.c", ["--mode=history"], group="history"),
            Run(C(sse2=0, **MIN), "harness/p_c10.c", ["--mode=env", "--setbits=24"], group="env"),
            Run(C(sse2=0, **MIN), "harness/p_c10.c", ["--mode=history"], group="history"),
            Run(C(), "harness/p_c09.c", ["--setbits=24"], group="views-dirty-parents", extra_cflags=["-DVX_C10_VIEWS"])]

PROPS["C10"] = dict(
    level="exploration", runs=_c10_runs,
    rule="(views) every op of the registry with each subset of its operands placed as views into parents filled with ones / pseudo-random bits (placements as in C09): returned value, result matrix and final operand values equal the call on standalone copies and every OWNED operand / result keeps zero padding; (environment) for every op of the registry (82 entry points) x its shapes x 2 data sets, enumerated environment deviations: (i) ALL allocations returning 0xFF-filled / patterned memory, and EACH SINGLE allocation i = 1..N deviating (N = requests counted in the baseline run; capped at 48 per case in quick, uncapped thorough); (ii) the block cache pre-loaded with dirtied blocks of exactly the sizes the op requests; (iii) every ordered pair (thorough: triple) of a 28-call menu run in one process, the last call compared with the same call alone; (iv) prior destination content in {zeros, ones, PR} for every overwriting op; the outcome digest covers every operand, the scalar result and the returned matrix; raw padding of every owned matrix is inspected; non-trivial = every case; distinct = distinct (op, shape, data, deviation)",
    level_text="Deviation-bounded exhaustive exploration of the environment: the allocator is an adversary whose answers (memory content per allocation, recycled blocks) are enumerated one deviation at a time and all-at-once, call histories are enumerated as ordered pairs/triples, and every outcome must equal the one in the default environment.",
    level_note="Bounded: one deviation at a time or all at once (not arbitrary subsets); histories of length <= 2 (3). calloc keeps its zeroing semantics. The allocation histories of the caches themselves are explored as a state graph in C14.",
    technique="deviation-bounded exhaustive enumeration of allocator answers and call histories on the real code (differential against the baseline environment)",
    assumptions=["--wrap interposition sees every heap request of m4ri (posix_memalign, malloc, calloc, realloc, free)", "ASan's own fill of fresh memory disabled (max_malloc_fill_size=0)"],
)

def _c11_runs(tier):
    rs = [Run(C(), "harness/p_c11.c", ["--mode=ops", "--setbits=24"], group="ops"),
          Run(C(sse2=0, **MIN), "harness/p_c11.c", ["--mode=ops", "--setbits=24"], group="ops"),
          Run(C(thread_safe=1), "harness/p_c11.c", ["--mode=ops", "--setbits=24"], group="ops"),
          Run(C(), "harness/p_c11.c", ["--mode=illdim"], group="illdim"),
          Run(C(), "harness/p_c11.c", ["--mode=lifecycle"], group="lifecycle"),
          Run(C(**MIN), "harness/p_c11.c", ["--mode=rec"], group="rec")]
    if tier == "thorough":
        rs.append(Run(C(simd="native", **MIN), "harness/p_c11.c", ["--mode=ops", "--setbits=24"], group="ops"))
        rs.append(Run(C(thread_safe=1, sse2=0), "harness/p_c11.c", ["--mode=illdim"], group="illdim"))
    return rs

PROPS["C11"] = dict(
    level="exploration", runs=_c11_runs,
    rule="op registry (82 entry points) x all its shapes x 2 data sets x {all operands owned; each single operand a view at 6 placements (odd word offsets = 8-mod-16 rows) with EVERY parent word outside the view's word rectangle ASan-poisoned}, in builds {SSE2 baseline flags, no SSE2, thread-safe (header cache off: every header is a heap block, so leaks are allocator-balance violations)}; plus, in the min-cache build, every routine built on block-recursive PLE (PLE, PLUQ, PLUQ echelon forms, hybrid, solve, kernel) over the REC rank-profile family on shapes whose rows end at the end of the allocation; plus 25 checked wrappers x 5 base sizes x every operand dimension perturbed by -1/+1 (and negative cutoffs, too-small destinations, wrong permutation lengths), each in a forked child whose operands live in shared memory; oracle: ASan/UBSan silent (bounds, use-after-free, shift, signed overflow, alignment), allocator and header balance, child terminated by m4ri_die + SIGABRT with all operand bytes unchanged; the sanitizers are also active in every other BEX check (C01-C10, C13, C17-C20); non-trivial = every case; distinct = distinct (op, shape, data, placement) / (wrapper, size, perturbation)",
    level_text="Bounded-exhaustive exploration with sanitizer oracles: every registered operation on every shape with operands placed so that a one-word overrun of a row lands in poisoned memory, in SIMD and scalar builds, and every single-dimension perturbation of the checked wrappers executed in an attributable child process.",
    level_note="Bounded shapes (<= 704 columns). 'pointer-overflow' (NULL + 0 on empty matrices) is not part of the statement and is disabled. Accesses to the operand's own stride-padding word are not flagged.",
    technique="bounded-exhaustive enumeration on the real code with AddressSanitizer/UBSan, poisoned surroundings and fork-per-call fate classification as oracles",
    assumptions=["ASan/UBSan of clang 14 report every out-of-bounds / misaligned / undefined-arithmetic event on the executed paths"],
)

def _c12_runs(tier):
    K = 1024
    # L3 values whose derived block sizes are NOT multiples of 64 are included on purpose: 512 KiB -> MUL_BLOCKSIZE 724, 2 MiB -> 1448, 3 MiB -> 1773
    triples = [(4*K, 32*K, 64*K), (32*K, 256*K, 1024*K), (64*K, 1280*K, 54*K*K), (4*K, 32*K, 54*K*K), (32*K, 1310720, 56623104), (32*K, 256*K, 512*K), (32*K, 256*K, 2048*K)]
    if tier == "thorough":
        L1s, L2s, L3s = [4*K, 32*K, 64*K], [32*K, 256*K, 1280*K], [64*K, 512*K, 1024*K, 2048*K, 3072*K, 54*K*K]
        triples = [(a, b, c) for a in L1s for b in L2s for c in L3s if a <= b <= c]
    rs = []
    env4 = dict(OMP_NUM_THREADS="4")
    for i, (l1, l2, l3) in enumerate(triples):
        for sse2 in (1, 0):
            flavours = [(0, 0)]
            if (tier == "thorough" and (l3 in (64*K, 1024*K, 54*K*K))) or (tier != "thorough" and i in (0, 2)):
                flavours += [(1, 0), (0, 1), (1, 1)] if (tier == "thorough" or sse2 == 1) else []
            for ts, omp in flavours:
                if tier != "thorough" and (ts, omp) != (0, 0) and i == 2 and sse2 == 1 and (ts, omp) == (1, 1):
                    continue
                cfg = C(L1=l1, L2=l2, L3=l3, sse2=sse2, thread_safe=ts, openmp=omp, instr="plain", cc=("gcc" if omp else "clang"))
                rs.append(Run(cfg, "harness/p_c12.c", [], group="lattice", env=(env4 if omp else {}), extra_ldflags=driver_wrap(omp)))
    return rs

def driver_wrap(omp):
    from .driver import WRAP
    return WRAP + (["-fopenmp"] if omp else [])

def _c12_cross(results):
    out = []
    ref = None
    for r in results:
        c = r.get("counters", {})
        key = (c.get("table_sum"), c.get("table_entries"))
        if r.get("deadline_hit") or r.get("skipped"):
            continue
        if ref is None:
            ref = (key, r["run"]["label"])
        elif key != ref[0]:
            out.append(dict(sig="digest-table", clause="differs-between-configurations", id=r["run"]["label"],
                            msg="digest table (sum %s over %s entries) differs from build %s (sum %s over %s entries)" % (key[0], key[1], ref[1], ref[0][0], ref[0][1])))
    return out

PROPS["C12"] = dict(
    level="exploration", runs=_c12_runs, cross_check=_c12_cross,
    rule="(case list additionally contains rank profiles that drive the block-recursive PLE - REC family at fixed shapes just above the recursion threshold of the smallest cache configuration - for mzd_pluq, mzd_ple, mzd_echelonize_pluq, mzd_solve_left) configuration lattice: cache triples (L1,L2,L3) with L1 in {4K,32K,64K}, L2 in {32K,256K,1280K}, L3 in {64K,512K,1M,2M,3M,54M} (512K/2M/3M give block sizes 724/1448/1773 that are not multiples of 64), L1<=L2<=L3 (7 triples quick incl. the host's, all thorough) x SSE2 {on,off} x {default, thread-safe, OpenMP, both} (flag mapping evaluated from configure.ac's own fragment; OpenMP builds use gcc + libgomp with 4 threads) = 20 builds quick / ~150 thorough; one fixed case list run in every build: products (mzd_mul x 7 cutoffs, mzd_mul_m4rm x k in {0,2..8}, naive, both accumulate forms) on shapes at every blocking/recursion threshold of every configuration (255..257, 511..513, 1023..1025, (2047..2049)), RREF + rank by M4RI (k = 0..10), PLUQ-based, hybrid, naive, PLUQ reconstruction x cutoffs, inversion (k = 0..10), four TRSM + trtri x cutoffs, solve verdicts; every result equals the reference model and the (case, digest) tables of all builds are identical; non-trivial = every case; distinct = distinct (case, parameter) per build",
    level_text="Exhaustive enumeration of a configuration lattice crossed with every tuning parameter value on a fixed case list whose shapes straddle every configuration-derived threshold; results are compared with the reference model and digest tables are compared between builds.",
    level_note="Bounded: lattice points only (not every cache size), shapes <= 2049, plain -O2 builds with clang 14 / gcc 12 (no sanitizer here; the sanitized multi-configuration runs are in C01-C11).",
    technique="exhaustive enumeration of a build-configuration lattice x parameter alphabets on the real code (digest tables compared across builds and with a reference model)",
    assumptions=["reference model in harness/vx.c", "configure.ac's thread-safe/OpenMP fragment is evaluated with sh (engine/build.py)"],
)

def _c18_runs(tier):
    rs = []
    for mode in ("roundtrip", "str", "jcf", "png"):
        rs.append(Run(C(), "harness/p_c18.c", ["--mode=" + mode, "--setbits=24"], group=mode))
    if tier == "thorough":
        rs.append(Run(C(sse2=0, **MIN), "harness/p_c18.c", ["--mode=roundtrip", "--setbits=24"], group="roundtrip"))
    return rs

PROPS["C18"] = dict(
    level="exploration", runs=_c18_runs,
    rule="PNG round trip for rows {1,2,9} x every ncols in 1..130 and {191..193,255..257,511..513} x {zero, ones, PR, all label planes (+complements), every single-entry matrix for ncols <= 70} and every compression level -1..9 x comment {NULL, empty, text} on dense data for every width residue mod 8 around word boundaries; mzd_from_str on ALL strings of matrices with <= 12 (14) entries and all unit strings up to 130 columns; JCF: generated valid files (equality with the denoted matrix) and every single-token replacement {index 0, positive first entry, ncols+1, -(ncols+1), 2e9, extra row, modulus 3, missing header, empty file, non-numeric token, truncation, negative dimension} at every token position of 6 base files; PNG files assembled by the harness (own chunk/CRC writer + zlib, independent of mzd_to_png) for every legal bit depth {1,2,4,8,16} x colour type {0,2,3,4,6} x interlace x 5 sizes, each pristine, truncated at EVERY byte length and with EVERY single byte xor 0x01 / 0xFF, each read in a forked ASan child; non-trivial = non-zero matrix / existing byte position; distinct = distinct (case parameters)",
    level_text="Bounded-exhaustive round-trip enumeration plus exhaustive single-fault enumeration (every truncation point, every single-byte corruption, every single-token replacement) of small files, with the fate of each reader run classified in a child process: NULL / controlled termination / matrix, never a sanitizer report or fault, and never a matrix for an unsupported IHDR.",
    level_note="Bounded: files < 700 bytes, single faults only. libpng itself is not instrumented; overflows are seen when they pass through intercepted libc calls or corrupt ASan-guarded heap metadata.",
    technique="bounded-exhaustive round-trip enumeration + exhaustive single-fault enumeration (truncations, byte flips, token replacements) on the real readers in forked ASan children",
    assumptions=["libpng16 and zlib of the image", "temporary files live in the per-run scratch directory"],
)

def _c20_runs(tier):
    rs = [Run(C(), "harness/p_c20.c", ["--setbits=22", "--hang=300"], group="default"),
          Run(C(thread_safe=1), "harness/p_c20.c", ["--setbits=22", "--hang=300"], group="thread-safe"),
          Run(C(), "harness/p_c20.c", ["--mode=prestate", "--setbits=22", "--hang=300"], group="non-initial-header-cache"),
          Run(C(instr="plain"), "harness/p_c20.c", ["--mode=pnglib", "--setbits=22", "--hang=300"], group="png-all-allocations", common=["harness/vx.c", "harness/alloc_interpose.c"], extra_ldflags=["-Wl,--wrap=m4ri_die"]),
          # the same without optimisation: locals live in memory, so what a longjmp-based error path returns is what the source says
          Run(C(instr="plain", opt="-O0"), "harness/p_c20.c", ["--mode=pnglib", "--setbits=22", "--hang=300"], group="png-all-allocations-O0", common=["harness/vx.c", "harness/alloc_interpose.c"], extra_ldflags=["-Wl,--wrap=m4ri_die"])]
    if tier == "thorough":
        rs.append(Run(C(sse2=0, **MIN), "harness/p_c20.c", ["--setbits=22", "--hang=300"], group="min"))
    return rs

PROPS["C20"] = dict(
    level="fault_enumeration", runs=_c20_runs,
    rule="(PNG, all allocations) mzd_to_png / mzd_from_png on 4 shapes with EVERY allocation of the process failing in turn, including libpng's and zlib's own (allocator interposed by symbol definition, plain -O2 and -O0 builds): controlled abort, error return or a complete correct result - never a claimed success with a wrong matrix / file; (non-initial states) create / window / 8 representative operations started with exactly 64, 128, 63, 65 (thorough also 127, 192) matrix headers in use, so that the first header request of the scenario allocates a new header-cache block, takes the last slot of a block or the first of a fresh one; (fresh state) scenarios = every operation of the registry (82 entry points: create/copy, window, every multiplication route, echelon forms, PLE/PLUQ, TRSM, inversion x3, solve, kernel, transpose, permutation application, ...) x 3 shapes (all shapes thorough) + create for 6 size classes (incl. 1 MiB+ blocks and zero-area), window, permutation objects, mzd_from_str, PNG write, PNG read, JCF read, DJB compile+apply (3 sizes), in the default and the thread-safe (caches off) build; for each scenario N = allocation requests counted in a fault-free child, and for EVERY i in 1..N a forked child in which request i fails (posix_memalign -> ENOMEM, malloc/calloc/realloc -> NULL); oracle: child dies by SIGABRT after m4ri_die with a diagnostic, never returns normally, never a sanitizer report or SIGSEGV; 'evaluations' = fault-injected children; non-trivial = an allocation actually failed; distinct = distinct failing call sites (return addresses)",
    level_text="Exhaustive single-fault enumeration: every allocation request of every scenario is made to fail in its own child process and the fate of that process is classified.",
    level_note="Covers allocation requests issued by m4ri's own code (through the five libc entry points reached by --wrap); libpng's and zlib's internal allocations are outside the --wrap wrapper; the PNG scenarios are therefore repeated with symbol-level interposition in a sanitizer-free build; outside the claim. One failure per run (no multiple faults).",
    technique="exhaustive single-fault enumeration (i-th allocation fails) on the real code in forked children with fate classification",
    assumptions=["--wrap interposition sees every heap request of m4ri", "fork per injected fault; ASan/UBSan on in the child"],
)

def _c14_runs(tier):
    thorough = tier == "thorough"
    rs = []
    def fsx(cfg, args, group):
        return Run(cfg, "fsx/allocmc.c", args, group=group, kind="fsx", common=["harness/alloc_wrap.c"])
    # scaled caches (hooks H1/H2): eviction, slot reuse, round-robin index, header-block spill and unlink reachable at small depth
    if thorough:
        rs.append(fsx(C(defs=("M4RI_VERIF_MMC_NBLOCKS=2", "M4RI_VERIF_MZD_T_CACHE_MAX=3"), **MIN), ["--depth=7", "--starts=0,62,63,64,126,127,128,130,191,192,193", "--maxlive=4", "--setbits=25", "--both-teardowns=1"], "scaled-N2"))
        rs.append(fsx(C(defs=("M4RI_VERIF_MMC_NBLOCKS=3", "M4RI_VERIF_MZD_T_CACHE_MAX=2"), **MIN), ["--depth=7", "--starts=0,63,64,127,128,129", "--maxlive=5", "--setbits=25"], "scaled-N3"))
        rs.append(fsx(C(**MIN), ["--depth=6", "--starts=0,64,1023,1024,1025", "--maxlive=4", "--setbits=24"], "real-constants"))
        rs.append(fsx(C(), ["--depth=5", "--starts=0,64", "--maxlive=4", "--setbits=22"], "host"))
        rs.append(fsx(C(thread_safe=1), ["--depth=5", "--starts=0,3", "--maxlive=4", "--setbits=22"], "thread-safe"))
    else:
        rs.append(fsx(C(defs=("M4RI_VERIF_MMC_NBLOCKS=2", "M4RI_VERIF_MZD_T_CACHE_MAX=3"), **MIN), ["--depth=5", "--starts=0,63,127,128,130,191,192", "--maxlive=3", "--setbits=23"], "scaled-N2"))
        rs.append(fsx(C(defs=("M4RI_VERIF_MMC_NBLOCKS=3", "M4RI_VERIF_MZD_T_CACHE_MAX=2"), **MIN), ["--depth=5", "--starts=0,64,128", "--maxlive=4", "--setbits=22", "--scripted=0"], "scaled-N3"))
        rs.append(fsx(C(**MIN), ["--depth=3", "--starts=0,1024", "--maxlive=3", "--setbits=22"], "real-constants"))
        rs.append(fsx(C(thread_safe=1), ["--depth=4", "--starts=0,3", "--maxlive=3", "--setbits=22", "--scripted=0"], "thread-safe"))
    return rs

PROPS["C14"] = dict(
    level="model_checking", runs=_c14_runs, engine="FSX",
    rule="explicit-state search over the REAL allocator: alphabet {INIT(size class) for 6 classes: 16 B, 32 B, two zero-area shapes, exactly at and just above the block-cache threshold; WIN(h) on every live owned matrix; FREE(h) of every live handle in any order (parents before their windows included); FREEBLOCK(b) = free all start-state headers of header block b}, at most 4-5 live handles beyond the start state, depth bound D (5 quick / 7 thorough) from start states with up to 11 different numbers of live headers in {0,62,63,64,126,127,128,130,191,192,193}; block cache scaled to 2 or 3 slots and header cache to 2-3 blocks through hooks H1/H2 so that eviction, slot reuse, the round-robin index, header-block allocation, unlink and the plain-malloc regime are all reachable; the unhooked constants (16/16) are searched to a smaller depth and driven by scripted families (17/18/33 distinct cacheable sizes freed in every rotation and LIFO/FIFO; 1023..1094 live headers freed in 6 orders); a state is a live process, its canonical key = block-cache slot sizes in slot order + eviction index + header-block 'used' masks in list order + position of current_cache + live handles (header slot, kind, class, parent); visited table keeps the best remaining depth; invariants on every state; on every new state two teardown orders + m4ri_fini() must leave no allocation",
    level_text="Explicit-state model checking of the allocation machinery on the implementation itself: every reachable state of the real block cache / header cache within the depth bound is visited (fork snapshots make the C heap a copyable state), a harness-side model of the block cache is compared with the real cache array on every transition, and the invariants of the statement (fresh matrices zero and disjoint, live matrices intact, windows never release parent storage, nothing retained after finalisation, ASan silent) are evaluated in every state.",
    level_note="Bounded depth and handle count; cache capacities scaled down by guarded hooks for the deep search (the real constants are covered to depth 4-6 and by scripted families). The canonical key ignores addresses; two states with equal keys have equal futures because the allocator's decisions depend only on sizes, masks and indices (the conformance check on every transition backs this).",
    technique="explicit-state model checking on the real code (fork-snapshot state space exploration with canonical state hashing, model conformance checked on every transition)",
    assumptions=["fork() preserves the complete allocator state", "guarded hooks M4RI_VERIF_MMC_NBLOCKS / M4RI_VERIF_MZD_T_CACHE_MAX only change the two capacity constants"],
)

ICBWRAP = ["-Wl,--wrap=malloc,--wrap=calloc,--wrap=realloc,--wrap=free,--wrap=posix_memalign,--wrap=m4ri_die,--wrap=memset,--wrap=memcpy"]
def _icb(cfg, body, args, group):
    return Run(cfg, "icb/icb.c", args, group=group, kind="icb", common=[body, "harness/vx.c"], extra_cflags=["-I/verif/icb", "-DVX_ICB"], extra_ldflags=ICBWRAP, instrument_harness=False)

def _tsan_free(tier):
    return Run(C(thread_safe=1, instr="tsan", cc="clang", opt="-O1"), "icb/tsan_free.c", ["--threads=16"], group="aux-free-running-tsan", kind="aux", common=["harness/vx.c"],
               extra_cflags=["-I/verif/icb"], extra_ldflags=["-lpthread", "-Wl,--wrap=malloc,--wrap=calloc,--wrap=free"], env=dict(TSAN_OPTIONS="halt_on_error=1:exitcode=66:report_signal_unsafe=0"))

def _c15_runs(tier):
    cfg = C(thread_safe=1, instr="tsancb", opt="-O1")
    if tier == "thorough":
        return [_icb(cfg, "icb/h_c15.c", ["--bound=1", "--alloc-points=1"], "bound1-allocpoints"),
                _icb(C(thread_safe=1, instr="tsancb", opt="-O1", sse2=0, **MIN), "icb/h_c15.c", ["--bound=2", "--alloc-points=0"], "bound2-static-points"),
                _icb(cfg, "icb/h_c15.c", ["--bound=2", "--alloc-points=1"], "bound2-allocpoints (as far as the deadline allows)"), _tsan_free(tier)]
    return [_icb(cfg, "icb/h_c15.c", ["--bound=1", "--alloc-points=1"], "bound1-allocpoints"), _tsan_free(tier)]

PROPS["C15"] = dict(
    level="model_checking", runs=_c15_runs, engine="ICB",
    rule="thread-safe build (flags derived from configure.ac's --enable-thread-safe fragment); scenarios: ALL ordered pairs of a 14-entry operation menu (Strassen and M4RM products, cubic product, M4RI / PLUQ echelon forms, PLE, PLUQ, solve, kernel, transpose, TRSM, inversion, accumulate product, column permutation) on 2 logical threads, 21 triples on 3 threads, 16 threads, and init/window/free bursts, every thread creating, using and freeing its own matrices; scheduling points: every allocator call (malloc/posix_memalign/free; pairs a<=b in quick, all pairs and triples thorough), every write to static storage and every read of static storage written during the run, thread start/end; ALL schedules with at most 1 preemption are executed (iterative context bounding; unlimited non-preemptive switches for 2-3 threads, default schedule plus every single deviation for 16 threads); on every execution a vector-clock happens-before detector watches every load/store of library code (own __tsan_* callbacks, 4-byte granules, memset/memcpy included) and every thread's result digest is compared with the sequential run; states = nodes of the explored schedule tree, transitions = scheduling decisions executed, traces_validated_against_impl = executions (every schedule is executed on the real code); auxiliary (sampling, not part of the exhaustive claim): the same menu on 2..16 real pthreads under the real ThreadSanitizer runtime",
    level_text="Stateless model checking of the real library under a deterministic coroutine scheduler: all interleavings of the scenario threads at the hooked points within the preemption bound are executed, each with a happens-before race detector over every instrumented memory access; since the thread-safe build has no synchronisation of its own, any conflicting pair of accesses is concurrent in every schedule, so race-freedom is decided on each single execution and the schedule enumeration decides result equality.",
    level_note="Bounded: preemption bound 1 (2 without allocator points in thorough), menu operations on small shapes, sequentially consistent interleavings (justified by race-freedom). libc's allocator is trusted to be thread-safe; its internal synchronisation is not modelled (blocks are re-initialised in the shadow on allocation).",
    technique="stateless model checking on the real code: preemption-bounded exhaustive schedule enumeration (ICB) over hooked scheduling points + vector-clock happens-before race detection on every execution",
    assumptions=["gcc -fsanitize=thread instrumentation reports every load/store of library code to our callbacks", "coroutine scheduler owns all scheduling nondeterminism (one OS thread)"],
)

def _c16_runs(tier):
    cfg = C(openmp=1, instr="tsancb", opt="-O1")
    if tier == "thorough":
        return [_icb(cfg, "icb/h_c16.c", ["--bound=1"], "bound1-all-teams"),
                _icb(cfg, "icb/h_c16.c", ["--bound=2", "--teams=2-3"], "bound2-teams-2-3"),
                _icb(C(openmp=1, instr="tsancb", opt="-O1", sse2=0, **MIN), "icb/h_c16.c", ["--bound=1", "--teams=2-5"], "bound1-min-cache"),
                _icb(C(openmp=1, instr="tsancb", opt="-O1", **MIN), "icb/h_c16.c", ["--bound=1", "--prefill-only=1"], "bound1-cache-prefilled-min-cache")]
    return [_icb(cfg, "icb/h_c16.c", ["--bound=1"], "bound1-quick-list"),
            _icb(C(openmp=1, instr="tsancb", opt="-O1", **MIN), "icb/h_c16.c", ["--bound=1", "--prefill-only=1"], "bound1-cache-prefilled-min-cache"),
            _icb(C(openmp=1, instr="tsancb", opt="-O1", **MIN), "icb/h_c16.c", ["--bound=1", "--kinds=0x1fc0", "--max-team=3"], "bound1-recursive-entry-points-min-cache")]

PROPS["C16"] = dict(
    level="model_checking", runs=_c16_runs, engine="ICB",
    rule="OpenMP build (gcc -fopenmp, header cache off per configure.ac's fragment) linked against a mini-GOMP runtime implemented on the deterministic scheduler (GOMP_parallel, GOMP_parallel_sections, GOMP_sections_next, GOMP_critical_name_start/end, omp_get_num_threads/thread_num; nested regions get a team of 1 like libgomp's default); scenarios: mzd_mul_mp / mzd_addmul_mp on shapes with remainder strips not multiple of 128 and cutoffs 64/128, mzd_mul_m4rm / mzd_addmul_m4rm / mzd_mul / mzd_echelonize_m4ri on shapes with > 512 rows (static chunks spread over threads), for team sizes {1,2,3,4,5,8,16} (quick) / every size 1..16 (thorough); environments in which the runtime delivers fewer threads than omp_get_max_threads() or a num_threads clause ask for (thread limit 1..3 of 4, 2 of 16), and the front ends called from inside an application parallel region of 2 threads (library regions nested and serialised); the multi-core front ends on all 8 patterns of 'dimension is / is not a multiple of 128' (m, l, n); triangular solves (4 variants), triangular inversion, PLUQ-based elimination and Four-Russians inversion with > 512 rows, also in a min-cache OpenMP build where their cache-derived recursion thresholds are crossed; plus, in a min-cache OpenMP build, the multi-core products started from a NON-INITIAL allocator state (block cache full of large blocks, eviction index advanced) for teams 2..4(5); scheduling points: region fork (who runs first), every GOMP_sections_next (which thread gets which section), every critical(mmc) entry, writes to static storage outside critical sections, thread end / join; teams of 2-3: ALL schedules with at most 1 (thorough also 2) preemption(s); teams of 4-5: default schedule + every single deviation with ALL section-to-thread assignments; larger teams: default + every single deviation; on every execution: result == reference model (= sequential result), vector-clock happens-before race detection over every load/store (fork/join and critical release->acquire edges), deadlock detection; states = nodes of the explored schedule tree, transitions = scheduling decisions executed",
    level_text="Stateless model checking of the OpenMP build: a replacement OpenMP runtime owns every scheduling decision, all schedules within the bound are executed on the real library code, and each execution is checked for data races (happens-before), deadlock and bit-identical results.",
    level_note="libgomp itself is replaced, i.e. the real runtime's implementation of critical/barrier/sections is trusted, not checked. Bounded preemptions / deviations as stated; nested parallelism is serialised (team of 1).",
    technique="stateless model checking on the real code: preemption/deviation-bounded exhaustive schedule enumeration over a mini-OpenMP runtime + vector-clock race detection on every execution",
    assumptions=["gcc 12 outlines OpenMP regions to the 8 GOMP entry points implemented by icb/icb.c", "gcc -fsanitize=thread instrumentation reports every load/store of library code to our callbacks"],
)
