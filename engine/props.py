"""Per-property run lists (which configurations, which harness, which arguments) and evidence texts."""
from .build import Config, MINCACHE
from .driver import Run

HOST = dict()                      # default cache sizes of the pinned build
def C(**kw): return Config(**kw)

PROPS = {}
HOOK_COMMITS = []

PROPS["C19"] = dict(
    level="exploration",
    runs=lambda tier: [Run(C(), "harness/p_c19.c", group="c19"), Run(C(sse2=0, simd="native", **MINCACHE), "harness/p_c19.c", group="c19")],
    rule="finite domains enumerated completely: all 2^k code-book entries k=1..16; mzd_make_table for k=1..10(12) x 20 widths x start columns x row offsets x 4 fills, every x in 0..2^k-1 compared with the reference sum of the selected rows; parity64 on all 4096 single-bit buffers, all bit pairs per word, dense buffers; all (n,offset) masks; bit reversal; lesser_LSB on all pairs of {0, single, two-bit}; spread/shrink for every strictly increasing Q of length<=4 and progressions of length 5..16. 'evaluations' counts individual table entries / function evaluations; a case is non-trivial when its input is not all-zero; distinct = distinct (input digest, parameters).",
    level_text="Complete enumeration of the finite domains the statement names (exhaustive:true): every code-book entry, every table index, every mask argument, complete bit bases of the linear word kernels - executed on the real functions and compared with a bit-loop reference.",
    level_note="Trusted: the harness reference loops, clang 14 / x86-64 code generation. Linear kernels (parity, reversal, spread/shrink) are checked on complete bases plus fixed dense words, not on all 2^64 words.",
    technique="exhaustive enumeration of finite domains on the real code (bounded-exhaustive explorer)",
    assumptions=["clang 14 -O1 ASan+UBSan build of the current /repo tree; x86-64", "the reference model (harness/vx.c) is validated against a byte-per-entry implementation at every start"],
)
