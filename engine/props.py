"""Per-property run lists (which configurations, which harness, which arguments) and evidence texts."""
from .build import Config, MINCACHE
from .driver import Run

HOST = dict()                      # default cache sizes of the pinned build
def C(**kw): return Config(**kw)

PROPS = {}
HOOK_COMMITS = []

PROPS["C19"] = dict(
    level="exploration",
    runs=lambda tier: [Run(C(), "harness/p_c19.c", group="c19"), Run(C(sse2=0, simd="native", **MINCACHE), "harness/p_c19.c", group="c19")],
    rule="finite domains enumerated completely: all 2^k code-book entries k=1..16; mzd_make_table for k=1..10(12) x 20 widths x start columns x row offsets x 4 fills, every x in 0..2^k-1 compared with the reference sum of the selected rows; parity64 on all 4096 single-bit buffers, all bit pairs per word, dense buffers; all (n,offset) masks; bit reversal; lesser_LSB on all pairs of {0, single, two-bit}; spread/shrink for every strictly increasing Q of length<=4 and progressions of length 5..16. 'evaluations' counts individual table entries / function evaluations; a case is non-trivial when its input is not all-zero; distinct = distinct (input digest, parameters).",
    level_text="Complete enumeration of the finite domains the statement names (exhaustive:true): every code-book entry, every table index, every mask argument, complete bit bases of the linear word kernels - executed on the real functions and compared with a bit-loop reference.",
    level_note="Trusted: the harness reference loops, clang 14 / x86-64 code generation. Linear kernels (parity, reversal, spread/shrink) are checked on complete bases plus fixed dense words, not on all 2^64 words.",
    technique="exhaustive enumeration of finite domains on the real code (bounded-exhaustive explorer)",
    assumptions=["clang 14 -O1 ASan+UBSan build of the current /repo tree; x86-64", "the reference model (harness/vx.c) is validated against a byte-per-entry implementation at every start"],
)

MIN = MINCACHE
def _c01_runs(tier):
    rs = []
    for mode in ("grid", "split", "big"):
        rs.append(Run(C(), "harness/p_c01.c", ["--mode=" + mode], group="host-" + mode))
        rs.append(Run(C(sse2=0, **MIN), "harness/p_c01.c", ["--mode=" + mode], group="min-" + mode))
    return rs

PROPS["C01"] = dict(
    level="exploration", runs=_c01_runs,
    rule="complete product of declared alphabets: multiplication routes x parameters (k in {-1..17 sample incl. all of 2..8}, cutoffs) x shape triples x operand pattern pairs (dense pairs, sparse, identity, zero, and complete unit bases by bilinearity: l cyclic one-entry-per-row matrices for A, l for B); a case is (route, parameter, shape, patterns); non-trivial = the reference product is non-zero; distinct = distinct (operand digest, route, parameter)",
    level_text="Bounded-exhaustive differential exploration: every multiplication entry point is executed on the complete Cartesian product of finite shape/pattern/parameter alphabets (all residues around 64-bit words, Strassen split limits, cubic/table switches) in a default and a minimum-cache/no-SSE2 build, and every result is compared bit for bit with an independent reference product; factors must be unchanged and padding zero; ASan/UBSan on.",
    level_note="Bounded: dimensions <= ~1400, fixed pattern alphabets (unit bases are complete only under bilinearity, which is assumed, not proved). OpenMP front ends are covered in C16.",
    technique="bounded-exhaustive enumeration of input/parameter alphabets on the real code against a reference model",
    assumptions=["reference product in harness/vx.c (validated against a byte-per-entry triple loop at start-up)", "clang 14 ASan+UBSan builds: host cache sizes with SSE2, and L1/L2/L3 = 4K/32K/64K without SSE2"],
)
