/* C13: row/column operations and permutation application follow LAPACK swap semantics. */
#include "vx.h"
const char *prop_id = "C13";

static void expect(const char *sig, const char *clause, const mzd_t *R, const pm *E, const char *desc) {
  pm *G = pm_from_mzd(R);
  if (!pm_eq(G, E)) { int nd = 0, fi = -1, fj = -1; for (int i = 0; i < E->r; i++) for (int j = 0; j < E->c; j++) if (pm_get(G, i, j) != pm_get(E, i, j)) { if (fi < 0) { fi = i; fj = j; } nd++; }
    vx_fail(sig, clause, "%s: %d entries differ from the specified effect, first at (%d,%d)", desc, nd, fi, fj); }
  pm_free(G);
  int pd = mzd_padding_dirty(R);
  if (pd >= 0) vx_fail(sig, "padding", "%s: non-zero bits beyond the last column in row %d", desc, pd);
}
/* data whose rows (first 8 columns.. as many as fit) and columns (first 8 rows) are pairwise distinct */
static pm *labelled(int r, int c, int salt) {
  pm *M = pm_pat(r, c, (pat){P_PR, 0, salt});
  for (int i = 0; i < r; i++) for (int b = 0; b < 9 && b < c; b++) pm_set(M, i, b, (i >> b) & 1);
  for (int j = 0; j < c; j++) for (int b = 0; b < 9 && b < r; b++) pm_set(M, r - 1 - b, j, (j >> b) & 1);
  return M;
}

/* ---------- column swaps ---------- */
static void mode_colswap(void) {
  static const int NS[] = {1, 2, 63, 64, 65, 130, 200};
  int R = 9;
  for (int ni = 0; ni < 7; ni++) { int n = NS[ni];
    for (int a = 0; a < n; a++) for (int b = 0; b < n; b++) {
      vx_group();
      for (int dat = 0; dat < 2; dat++) {
        if (vx_case_begin("mzd_col_swap|n=%d|a=%d|b=%d|data=%d", n, a, b, dat)) {
          char desc[80]; snprintf(desc, sizeof desc, "n=%d cols %d,%d", n, a, b);
          pm *M = labelled(R, n, 3 + dat);
          if (dat) for (int i = 0; i < R; i++) { pm_set(M, i, a, 1); if (b != a) pm_set(M, i, b, 0); }
          mzd_t *Mz = mzd_from_pm(M); pm_swap_cols(M, a, b);
          mzd_col_swap(Mz, a, b);
          expect("mzd_col_swap", "swap", Mz, M, desc);
          vx_input(((uint64_t)n << 40) ^ ((uint64_t)a << 20) ^ (uint64_t)b ^ ((uint64_t)dat << 60), a != b);
          mzd_free(Mz); pm_free(M);
          vx_case_end();
        }
      }
      /* restricted to every row range, for pairs on a boundary set (all pairs for n <= 65) */
      int ba = (a < 2 || (a >= 62 && a <= 65) || a >= n - 2 || (a >= 126 && a <= 129)), bb = (b < 2 || (b >= 62 && b <= 65) || b >= n - 2 || (b >= 126 && b <= 129));
      if (n > 65 && !(ba && bb)) continue;
      if (!vx_tier && n > 2 && n <= 65 && !(ba && bb) && ((a + b) % 5)) continue;
      for (int s = 0; s <= R; s++) for (int t = s; t <= R; t++) {
        if (!vx_case_begin("mzd_col_swap_in_rows|n=%d|a=%d|b=%d|rows=%d..%d", n, a, b, s, t)) continue;
        char desc[80]; snprintf(desc, sizeof desc, "n=%d cols %d,%d rows [%d,%d)", n, a, b, s, t);
        pm *M = labelled(R, n, 5);
        for (int i = 0; i < R; i++) { pm_set(M, i, a, 1); if (b != a) pm_set(M, i, b, 0); }
        mzd_t *Mz = mzd_from_pm(M); pm_swap_cols_rows(M, a, b, s, t);
        mzd_col_swap_in_rows(Mz, a, b, s, t);
        expect("mzd_col_swap_in_rows", "swap", Mz, M, desc);
        vx_input(((uint64_t)n << 40) ^ ((uint64_t)a << 20) ^ (uint64_t)b ^ ((uint64_t)(s * 16 + t) << 52), a != b && s != t);
        mzd_free(Mz); pm_free(M);
        vx_case_end();
      }
    }
  }
}

/* ---------- row swap / row add / row clear ---------- */
static void mode_rows(void) {
  static const int NS[] = {1, 63, 64, 65, 127, 128, 130, 200, 300, 641};
  int R = 5;
  for (int ni = 0; ni < 10; ni++) { int n = NS[ni], W = (n + 63) / 64;
    for (int a = 0; a < R; a++) for (int b = 0; b < R; b++) for (int sb = 0; sb <= W + 1; sb++) {
      if (!vx_case_begin("_mzd_row_swap|n=%d|rows=%d,%d|startblock=%d", n, a, b, sb)) continue;
      char desc[80]; snprintf(desc, sizeof desc, "n=%d rows %d,%d from word %d", n, a, b, sb);
      pm *M = labelled(R, n, 7); mzd_t *Mz = mzd_from_pm(M);
      for (int j = 64 * sb; j < n; j++) { int x = pm_get(M, a, j), y = pm_get(M, b, j); pm_set(M, a, j, y); pm_set(M, b, j, x); }
      if (sb == 0) mzd_row_swap(Mz, a, b); else _mzd_row_swap(Mz, a, b, sb);
      expect(sb ? "_mzd_row_swap" : "mzd_row_swap", "swap", Mz, M, desc);
      vx_input(((uint64_t)n << 40) ^ ((uint64_t)(a * 8 + b) << 20) ^ (uint64_t)sb, a != b && sb < W);
      mzd_free(Mz); pm_free(M);
      vx_case_end();
    }
    for (int off = 0; off < n; off++) for (int pr = 0; pr < 3; pr++) {
      int dst = pr == 0 ? 0 : pr == 1 ? 4 : 2, src = pr == 0 ? 3 : pr == 1 ? 1 : 2 + 1;
      if (vx_case_begin("mzd_row_add_offset|n=%d|dst=%d|src=%d|coloffset=%d", n, dst, src, off)) {
        char desc[80]; snprintf(desc, sizeof desc, "n=%d row %d += row %d from column %d", n, dst, src, off);
        pm *M = pm_pat(R, n, pr == 2 ? (pat){P_O, 0, 0} : (pat){P_PR, 0, 8}); mzd_t *Mz = mzd_from_pm(M);
        for (int j = off; j < n; j++) pm_set(M, dst, j, pm_get(M, dst, j) ^ pm_get(M, src, j));
        mzd_row_add_offset(Mz, dst, src, off);
        expect("mzd_row_add_offset", "row-add", Mz, M, desc);
        vx_input(((uint64_t)n << 40) ^ ((uint64_t)off << 8) ^ (uint64_t)pr, 1);
        mzd_free(Mz); pm_free(M);
        vx_case_end();
      }
      if (pr < 2 && vx_case_begin("mzd_row_clear_offset|n=%d|row=%d|coloffset=%d|pat=%d", n, dst, off, pr)) {
        char desc[80]; snprintf(desc, sizeof desc, "n=%d row %d cleared from column %d", n, dst, off);
        pm *M = pm_pat(R, n, pr ? (pat){P_O, 0, 0} : (pat){P_PR, 0, 8}); mzd_t *Mz = mzd_from_pm(M);
        for (int j = off; j < n; j++) pm_set(M, dst, j, 0);
        mzd_row_clear_offset(Mz, dst, off);
        expect("mzd_row_clear_offset", "row-clear", Mz, M, desc);
        vx_input(((uint64_t)n << 40) ^ ((uint64_t)off << 8) ^ (uint64_t)pr ^ (1ULL << 62), 1);
        mzd_free(Mz); pm_free(M);
        vx_case_end();
      }
    }
    if (vx_case_begin("mzd_row_add|n=%d", n)) {
      pm *M = pm_pat(R, n, (pat){P_PR, 0, 8}); mzd_t *Mz = mzd_from_pm(M);
      for (int j = 0; j < n; j++) pm_set(M, 3, j, pm_get(M, 3, j) ^ pm_get(M, 1, j));
      mzd_row_add(Mz, 1, 3);
      expect("mzd_row_add", "row-add", Mz, M, "row 3 += row 1");
      vx_input((uint64_t)n << 30, 1);
      mzd_free(Mz); pm_free(M);
      vx_case_end();
    }
  }
}

/* ---------- the row / column primitives on VIEWS: exactly the addressed entries of the view change, nothing of the parent ---------- */
typedef struct { int rowoff, wordoff, trailw, trailr, nest; } vplc;
static const vplc VP[] = {{1, 0, 1, 1, 0}, {0, 1, -1, 0, 0}, {1, 2, 1, 1, 1}, {0, 3, 1, 0, 0}, {2, 1, 1, 1, 0}};
static void view_case(const char *sig, int op, int n, int a, int b, int x, int pl, int fill) {
  if (!vx_case_begin("%s|view|n=%d|%d,%d,%d|place=%d|fill=%d", sig, n, a, b, x, pl, fill)) return;
  int R = 5; char desc[120], msg[256]; snprintf(desc, sizeof desc, "view n=%d args %d,%d,%d placement (%d,%d,%d,%d,nest=%d)", n, a, b, x, VP[pl].rowoff, VP[pl].wordoff, VP[pl].trailw, VP[pl].trailr, VP[pl].nest);
  pm *M = labelled(R, n, 7 + op);
  vw_nest = VP[pl].nest; vwin w = vw_make(M, 1, VP[pl].rowoff, VP[pl].wordoff, VP[pl].trailw, VP[pl].trailr, fill); vw_nest = 0; vw_snapshot(&w);
  mzd_t *V = w.view;
  switch (op) {
  case 0: for (int j = 64 * x; j < n; j++) { int p = pm_get(M, a, j), q = pm_get(M, b, j); pm_set(M, a, j, q); pm_set(M, b, j, p); } if (x == 0) mzd_row_swap(V, a, b); else _mzd_row_swap(V, a, b, x); break;
  case 1: for (int j = x; j < n; j++) pm_set(M, a, j, pm_get(M, a, j) ^ pm_get(M, b, j)); mzd_row_add_offset(V, a, b, x); break;
  case 2: for (int j = x; j < n; j++) pm_set(M, a, j, 0); mzd_row_clear_offset(V, a, x); break;
  case 3: for (int j = 0; j < n; j++) pm_set(M, b, j, pm_get(M, b, j) ^ pm_get(M, a, j)); mzd_row_add(V, a, b); break;
  case 4: for (int i = 0; i < R; i++) { int p = pm_get(M, i, a), q = pm_get(M, i, b); pm_set(M, i, a, q); pm_set(M, i, b, p); } mzd_col_swap(V, a, b); break;
  case 5: for (int i = 1; i < 4; i++) { int p = pm_get(M, i, a), q = pm_get(M, i, b); pm_set(M, i, a, q); pm_set(M, i, b, p); } mzd_col_swap_in_rows(V, a, b, 1, 4); break;
  }
  if (!mzd_eq_pm(V, M)) vx_fail(sig, "effect-on-view", "%s: the view does not hold the specified result", desc);
  if (vw_outside_changed(&w, msg, sizeof msg)) vx_fail(sig, "parent-outside", "%s: %s", desc, msg);
  vx_input(((uint64_t)n << 44) ^ ((uint64_t)op << 40) ^ ((uint64_t)(a * 700 + b) << 16) ^ ((uint64_t)x << 4) ^ (uint64_t)pl ^ ((uint64_t)fill << 60), 1);
  vw_free(&w); pm_free(M);
  vx_case_end();
}
static void mode_views(void) {
  static const int NS[] = {1, 63, 64, 65, 127, 128, 130, 192, 200, 257, 300, 385, 641};
  for (int ni = 0; ni < 13; ni++) { int n = NS[ni], W = (n + 63) / 64;
    for (int pl = 0; pl < 5; pl++) for (int fill = 1; fill < 3; fill++) {
      if (!vx_tier && fill == 2 && (pl & 1)) continue;
      for (int sb = 0; sb <= W; sb++) { view_case("_mzd_row_swap", 0, n, 0, 3, sb, pl, fill); view_case("_mzd_row_swap", 0, n, 4, 1, sb, pl, fill); }
      for (int off = 0; off < n; off++) { if (n > 130 && !vx_tier && !((off & 63) <= 1 || (off & 63) == 63 || off == n - 1 || off % 37 == 0)) continue;
        view_case("mzd_row_add_offset", 1, n, 0, 3, off, pl, fill); view_case("mzd_row_add_offset", 1, n, 4, 1, off, pl, fill); view_case("mzd_row_clear_offset", 2, n, 2, 0, off, pl, fill); }
      view_case("mzd_row_add", 3, n, 1, 3, 0, pl, fill); view_case("mzd_row_add", 3, n, 4, 0, 0, pl, fill);
      static const int CP[][2] = {{0, 0}, {0, 1}, {0, 63}, {1, 64}, {63, 64}, {62, 129}, {64, 128}, {0, 640}, {199, 3}, {256, 191}};
      for (int k = 0; k < 10; k++) { int ca = CP[k][0], cb = CP[k][1]; if (ca >= n || cb >= n) { ca = ca % n; cb = n - 1 - (cb % n); } view_case("mzd_col_swap", 4, n, ca, cb, 0, pl, fill); view_case("mzd_col_swap_in_rows", 5, n, ca, cb, 0, pl, fill); }
    }
  }
}

/* ---------- bit ranges ---------- */
static void mode_bits(void) {
  static const int NS[] = {192, 130, 64, 65, 1, 7};
  for (int ni = 0; ni < 6; ni++) { int nc = NS[ni];
    for (int y = 0; y < nc; y++) for (int n = 1; n <= 64 && y + n <= nc; n++) {
      if (!vx_case_begin("bits|ncols=%d|y=%d|n=%d", nc, y, n)) continue;
      char desc[80]; snprintf(desc, sizeof desc, "ncols=%d column %d length %d", nc, y, n);
      pm *M = pm_pat(3, nc, (pat){P_PR, 0, 9}); mzd_t *Mz = mzd_from_pm(M);
      /* read */
      uint64_t e = 0; for (int i = 0; i < n; i++) e |= (uint64_t)pm_get(M, 1, y + i) << i;
      word g = mzd_read_bits(Mz, 1, y, n);
      if (g != e) vx_fail("mzd_read_bits", "read", "%s: got %016llx expected %016llx", desc, (unsigned long long)g, (unsigned long long)e);
      if (n <= 31) { int gi = mzd_read_bits_int(Mz, 1, y, n); if ((uint64_t)gi != e) vx_fail("mzd_read_bits_int", "read", "%s: got %x", desc, gi); }
      /* xor with a value that has all n low bits meaningful */
      uint64_t st = 0xB175 + (uint64_t)y * 64 + (uint64_t)n; uint64_t v = vx_rand(&st); if (n < 64) v &= (1ULL << n) - 1;
      for (int i = 0; i < n; i++) if ((v >> i) & 1) pm_flip(M, 1, y + i);
      mzd_xor_bits(Mz, 1, y, n, v);
      expect("mzd_xor_bits", "xor", Mz, M, desc);
      /* clear */
      for (int i = 0; i < n; i++) pm_set(M, 2, y + i, 0);
      mzd_clear_bits(Mz, 2, y, n);
      expect("mzd_clear_bits", "clear", Mz, M, desc);
      vx_input(((uint64_t)nc << 40) ^ ((uint64_t)y << 8) ^ (uint64_t)n, 1);
      mzd_free(Mz); pm_free(M);
      vx_case_end();
    }
    /* write_bit / read_bit at every position */
    if (vx_case_begin("write_read_bit|ncols=%d", nc)) {
      mzd_t *Mz = mzd_init(3, nc); pm *M = pm_new(3, nc); uint64_t st = 5;
      for (int r = 0; r < 3; r++) for (int j = 0; j < nc; j++) { int b = (int)(vx_rand(&st) & 1); mzd_write_bit(Mz, r, j, b); pm_set(M, r, j, b); if (mzd_read_bit(Mz, r, j) != b) vx_fail("mzd_write_bit", "read-back", "ncols=%d (%d,%d)", nc, r, j); }
      for (int r = 0; r < 3; r++) for (int j = 0; j < nc; j++) { int b = !pm_get(M, r, j); mzd_write_bit(Mz, r, j, b); pm_set(M, r, j, b); }
      expect("mzd_write_bit", "write", Mz, M, "overwrite with complement");
      vx_input((uint64_t)nc << 33, 1);
      mzd_free(Mz); pm_free(M);
      vx_case_end();
    }
  }
}

/* ---------- mzd_combine family: every start-block triple with equal remaining widths ---------- */
static void mode_combine(void) {
  static const int NS[] = {1, 64, 65, 128, 130, 192, 200, 320, 321, 640, 700};
  for (int ni = 0; ni < 11; ni++) { int n = NS[ni], W = (n + 63) / 64;
    for (int sb = 0; sb < W; sb++) for (int form = 0; form < 5; form++) {
      /* form 0: C,A,B distinct same shape; 1: C==A (in place); 2: mzd_combine_even distinct; 3: mzd_combine_even_in_place; 4: different start blocks (A wider, B wider) */
      for (int asb = 0; asb < (form == 4 ? 3 : 1); asb++) for (int bsb = 0; bsb < (form == 4 ? 3 : 1); bsb++) {
        if (!vx_case_begin("mzd_combine|form=%d|n=%d|c_sb=%d|a_extra=%d|b_extra=%d", form, n, sb, asb, bsb)) continue;
        char desc[100]; snprintf(desc, sizeof desc, "form %d n=%d start block %d (+%d,+%d)", form, n, sb, asb, bsb);
        int na = n + 64 * asb, nb = n + 64 * bsb;
        pm *C = pm_pat(3, n, (pat){P_PR, 0, 11}), *A = pm_pat(3, na, (pat){P_PR, 0, 12}), *B = pm_pat(3, nb, (pat){P_PR, 0, 13});
        mzd_t *Cz = mzd_from_pm(C), *Az = mzd_from_pm(A), *Bz = mzd_from_pm(B);
        int cr = 0, ar = 1, br = 2;
        pm *E;
        if (form == 1 || form == 3) { /* C row 1 ^= B row br from block sb */
          E = pm_copy(C); for (int j = 64 * sb; j < n; j++) pm_set(E, ar, j, pm_get(C, ar, j) ^ pm_get(B, br, j + 64 * bsb));
          if (form == 1) mzd_combine(Cz, ar, sb, Cz, ar, sb, Bz, br, sb + bsb); else mzd_combine_even_in_place(Cz, ar, sb, Bz, br, sb + bsb);
          expect(form == 1 ? "mzd_combine(in place)" : "mzd_combine_even_in_place", "combine", Cz, E, desc);
        } else {
          E = pm_copy(C); for (int j = 64 * sb; j < n; j++) pm_set(E, cr, j, pm_get(A, ar, j + 64 * asb) ^ pm_get(B, br, j + 64 * bsb));
          if (form == 2) mzd_combine_even(Cz, cr, sb, Az, ar, sb + asb, Bz, br, sb + bsb); else mzd_combine(Cz, cr, sb, Az, ar, sb + asb, Bz, br, sb + bsb);
          expect(form == 2 ? "mzd_combine_even" : "mzd_combine", "combine", Cz, E, desc);
        }
        if (!mzd_eq_pm(Az, A) || !mzd_eq_pm(Bz, B)) vx_fail("mzd_combine", "source-unchanged", "%s", desc);
        vx_input(((uint64_t)n << 40) ^ ((uint64_t)sb << 20) ^ (uint64_t)(form * 16 + asb * 4 + bsb), 1);
        mzd_free(Cz); mzd_free(Az); mzd_free(Bz); pm_free(C); pm_free(A); pm_free(B); pm_free(E);
        vx_case_end();
      }
    }
  }
}

/* ---------- permutation application ---------- */
enum { AP_LEFT, AP_LEFT_TRANS, AP_RIGHT, AP_RIGHT_TRANS, AP_RIGHT_CAPPED, AP_RIGHT_TRANS_CAPPED, AP_RIGHT_TRANS_TRI, AP_N };
static const char *apname[] = {"mzd_apply_p_left", "mzd_apply_p_left_trans", "mzd_apply_p_right", "mzd_apply_p_right_trans", "mzd_apply_p_right_even_capped", "mzd_apply_p_right_trans_even_capped", "mzd_apply_p_right_trans_tri"};

static void ref_apply(pm *M, int f, const int *P, int len, int start_row, int start_col) {
  int r = M->r, c = M->c;
  switch (f) {
  case AP_LEFT: for (int i = 0; i < len && i < r; i++) pm_swap_rows(M, i, P[i]); break;
  case AP_LEFT_TRANS: for (int i = (len < r ? len : r) - 1; i >= 0; i--) pm_swap_rows(M, i, P[i]); break;
  case AP_RIGHT: case AP_RIGHT_CAPPED: for (int i = (len < c ? len : c) - 1; i >= 0; i--) pm_swap_cols_rows(M, i, P[i], start_row, r); break;
  case AP_RIGHT_TRANS: case AP_RIGHT_TRANS_CAPPED: for (int i = start_col; i < len && i < c; i++) pm_swap_cols_rows(M, i, P[i], start_row, r); break;
  case AP_RIGHT_TRANS_TRI: for (int i = 0; i < len && i < c; i++) pm_swap_cols_rows(M, i, P[i], 0, i < r ? i : r); break;
  }
}
static void lib_apply(mzd_t *M, int f, const mzp_t *P, int start_row, int start_col) {
  switch (f) {
  case AP_LEFT: mzd_apply_p_left(M, P); break;
  case AP_LEFT_TRANS: mzd_apply_p_left_trans(M, P); break;
  case AP_RIGHT: mzd_apply_p_right(M, P); break;
  case AP_RIGHT_TRANS: mzd_apply_p_right_trans(M, P); break;
  case AP_RIGHT_CAPPED: mzd_apply_p_right_even_capped(M, P, start_row, start_col); break;
  case AP_RIGHT_TRANS_CAPPED: mzd_apply_p_right_trans_even_capped(M, P, start_row, start_col); break;
  case AP_RIGHT_TRANS_TRI: mzd_apply_p_right_trans_tri(M, P); break;
  }
}
static void perm_case(const int *P, int len, int rows, int cols, const char *pdesc, int plane) {
  vx_group();
  for (int f = 0; f < AP_N; f++) {
    int left = (f == AP_LEFT || f == AP_LEFT_TRANS);
    int dim = left ? rows : cols;
    if (len > dim) continue;
    if (f == AP_RIGHT_TRANS_TRI && len != cols) continue; /* documented: P->length == A->ncols */
    int nvar = (f == AP_RIGHT_CAPPED) ? 3 : (f == AP_RIGHT_TRANS_CAPPED) ? 5 : 1;
    for (int var = 0; var < nvar; var++) {
      int start_row = 0, start_col = 0;
      if (nvar > 1) { start_row = var == 1 ? 1 : var == 2 ? rows / 2 : var == 3 ? 0 : var == 4 ? rows - 1 : 0; if (var >= 3) start_col = var == 3 ? (len > 1 ? 1 : 0) : len / 2; }
      if (!vx_case_begin("%s|%dx%d|len=%d|%s|start_row=%d|start_col=%d|plane=%d", apname[f], rows, cols, len, pdesc, start_row, start_col, plane)) continue;
      char desc[160]; snprintf(desc, sizeof desc, "%dx%d len=%d %s start_row=%d start_col=%d", rows, cols, len, pdesc, start_row, start_col);
      pm *M = plane < 0 ? labelled(rows, cols, 21) : pm_pat(rows, cols, (pat){plane & 1 ? P_NLBL : P_LBL, plane >> 1, 0});
      mzd_t *Mz = mzd_from_pm(M); pm *M0 = pm_copy(M);
      mzp_t *Pz = mzp_init(len); for (int i = 0; i < len; i++) Pz->values[i] = P[i];
      ref_apply(M, f, P, len, start_row, start_col);
      lib_apply(Mz, f, Pz, start_row, start_col);
      expect(apname[f], "swap-sequence", Mz, M, desc);
      for (int i = 0; i < len; i++) if (Pz->values[i] != P[i]) { vx_fail(apname[f], "permutation-unchanged", "%s: P modified", desc); break; }
      /* undone by the transposed counterpart */
      int inv = f == AP_LEFT ? AP_LEFT_TRANS : f == AP_LEFT_TRANS ? AP_LEFT : f == AP_RIGHT ? AP_RIGHT_TRANS : f == AP_RIGHT_TRANS ? AP_RIGHT : -1;
      if (inv >= 0) { lib_apply(Mz, inv, Pz, 0, 0); char s2[96]; snprintf(s2, sizeof s2, "%s+%s", apname[f], apname[inv]); expect(s2, "inverse-pair", Mz, M0, desc); }
      int moved = 0; for (int i = 0; i < len; i++) if (P[i] != i) moved = 1;
      vx_input(pm_hash(M) ^ ((uint64_t)f << 56) ^ ((uint64_t)var << 52) ^ pm_hash(M0), moved);
      mzp_free(Pz); mzd_free(Mz); pm_free(M); pm_free(M0);
      vx_case_end();
    }
  }
}
static void all_small(int L, int *P, int pos) {
  if (pos == L) {
    char pd[64]; int o = 0; o += snprintf(pd, sizeof pd, "P=["); for (int i = 0; i < L; i++) o += snprintf(pd + o, sizeof pd - (size_t)o, "%d%s", P[i], i + 1 < L ? "," : ""); snprintf(pd + o, sizeof pd - (size_t)o, "]");
    int dims[2] = {L, L + 2};
    for (int di = 0; di < 2; di++) { int n = dims[di], nb = lbl_bits(n, n);
      for (int pl = -1; pl < (vx_tier ? 2 * nb : 2); pl++) perm_case(P, L, n, n, pd, pl);
      perm_case(P, L, n, n + 63, pd, -1); perm_case(P, L, n + 63, n, pd, -1);
    }
    return;
  }
  for (int v = pos; v < L; v++) { P[pos] = v; all_small(L, P, pos + 1); }
}
static void mode_perm_small(void) { int P[8]; for (int L = 1; L <= 6; L++) all_small(L, P, 0); }

static void mode_perm_big(void) {
  static const int NS[] = {64, 65, 127, 128, 130, 200};
  for (int ni = 0; ni < 6; ni++) { int n = NS[ni]; int *P = vx_malloc(sizeof(int) * (size_t)n); char pd[64];
    int lens[4] = {n, n - 1, n / 2, 1};
    for (int li = 0; li < 4; li++) { int len = lens[li];
      int rows = 70, cols = n; /* right application on 70 x n; left application on n x 70 */
      #define BOTH(pdsc) do { perm_case(P, len, n, rows, pdsc, -1); perm_case(P, len, rows, cols, pdsc, -1); } while (0)
      for (int i = 0; i < len; i++) P[i] = i;
      BOTH("identity");
      /* every single swap i -> j (all i <= j < len): the 64-case gather sees every label and every source bit */
      for (int i = 0; i < len; i++) for (int j = i + 1; j < len; j++) {
        if (li > 0 && !(i < 2 || j >= len - 2 || (i >= 62 && i <= 65) || (j >= 62 && j <= 65))) continue;
        if (!vx_tier && li == 0 && n > 65 && !((i % 64) < 2 || (i % 64) > 61 || (j % 64) < 2 || (j % 64) > 61 || (i + j) % 9 == 0)) continue;
        P[i] = j; snprintf(pd, sizeof pd, "swap(%d,%d)", i, j); BOTH(pd); P[i] = i;
      }
      /* every pair of swaps from a 12-position boundary set */
      int bs[12] = {0, 1, 31, 62, 63, 64, 65, 126, 127, 128, len - 2, len - 1};
      for (int a = 0; a < 12; a++) for (int b = a + 1; b < 12; b++) for (int c = 0; c < 12; c++) for (int d = c + 1; d < 12; d++) {
        int i1 = bs[a], j1 = bs[b], i2 = bs[c], j2 = bs[d];
        if (i1 < 0 || j1 >= len || i2 < 0 || j2 >= len || i1 >= j1 || i2 >= j2 || i1 == i2) continue;
        if (!vx_tier && ((a + b + c + d) % 4)) continue;
        P[i1] = j1; P[i2] = j2; snprintf(pd, sizeof pd, "swaps(%d,%d)(%d,%d)", i1, j1, i2, j2); BOTH(pd); P[i1] = i1; P[i2] = i2;
      }
      /* cyclic shifts, reversal, two fixed full-length pseudo-random LAPACK sequences */
      for (int i = 0; i < len; i++) P[i] = i + 1 < len ? i + 1 : i; BOTH("cyclic");
      for (int i = 0; i < len; i++) P[i] = (len - 1 - i) > i ? len - 1 - i : i; BOTH("reversal");
      for (int s = 0; s < 2; s++) { uint64_t st = 0x9999 + (uint64_t)s; for (int i = 0; i < len; i++) P[i] = i + (int)(vx_rand(&st) % (uint64_t)(len - i)); snprintf(pd, sizeof pd, "random%d", s); BOTH(pd); }
    }
    vx_free(P);
  }
}

/* every tail length of the column-gather kernel (its 64-way fall-through switch is entered at "columns in the last block - 1"):
   permutation lengths 1..63 and 65..128 on matrices of exactly that many (and more) columns */
static void mode_perm_tail(void) {
  for (int L = 1; L <= 128; L++) { if (L == 64) continue;
    int *P = vx_malloc(sizeof(int) * (size_t)L); char pd[64];
    for (int extra = 0; extra < 2; extra++) { int n = L + (extra ? 37 : 0), rows = 9;
      #define TB(pdsc) do { perm_case(P, L, n, rows, pdsc, -1); perm_case(P, L, rows, n, pdsc, -1); } while (0)
      for (int i = 0; i < L; i++) P[i] = i;
      if (L > 1) { P[0] = L - 1; TB("swap(0,last)"); P[0] = 0; }
      if (L > 66) { P[63] = L - 1; TB("swap(63,last)"); P[63] = 63; P[64] = L - 1; TB("swap(64,last)"); P[64] = 64; }
      for (int i = 0; i < L; i++) P[i] = (L - 1 - i) > i ? L - 1 - i : i; TB("reversal");
      { uint64_t st = 0x7777 + (uint64_t)L; for (int i = 0; i < L; i++) P[i] = i + (int)(vx_rand(&st) % (uint64_t)(L - i)); TB("random"); }
      if (!vx_tier && extra == 0 && (L % 3)) break;
    }
    vx_free(P);
  }
}

void prop_enumerate(void) {
  const char *mode = vx_arg("mode", "colswap");
  if (!strcmp(mode, "perm_tail")) { mode_perm_tail(); return; }
  if (!strcmp(mode, "colswap")) mode_colswap();
  else if (!strcmp(mode, "rows")) mode_rows();
  else if (!strcmp(mode, "bits")) mode_bits();
  else if (!strcmp(mode, "views")) mode_views();
  else if (!strcmp(mode, "combine")) mode_combine();
  else if (!strcmp(mode, "perm_small")) mode_perm_small();
  else if (!strcmp(mode, "perm_big")) mode_perm_big();
}
int main(int argc, char **argv) { return vx_main(argc, argv); }
