/* C10: results are pure functions of operand values; owned matrices keep zero padding.
 * Environment deviations (heap content per allocation, recycled dirty blocks, call histories, prior destination content)
 * are enumerated; every outcome is compared with the baseline environment. */
#include "ops.h"
const char *prop_id = "C10";
extern size_t aw_sizes[]; extern long aw_nsizes;

typedef struct { uint64_t dig; int pad; long nalloc; } outcome;

/* run op on owned operands built from (shape, data, dstfill); returns digest of everything observable */
static outcome run_owned(const vop *o, const oshape *s, int data, int dstfill) {
  outcome r; memset(&r, 0, sizeof r); r.pad = -1;
  mzd_t *m[3] = {0, 0, 0}, *res = NULL;
  int saved_mode = aw_fill_mode; long saved_at = aw_fill_at;
  aw_fill_mode = 0; /* operand construction is not part of the environment under test */
  for (int k = 0; k < o->nmat; k++) {
    pm *c = (o->role[k] == 'o' && dstfill >= 0) ? pm_pat(s->d[k][0], s->d[k][1], dstfill == 0 ? (pat){P_Z, 0, 0} : dstfill == 1 ? (pat){P_O, 0, 0} : (pat){P_PR, 0, 33}) : op_content(o, s, k, data);
    m[k] = mzd_from_pm(c); pm_free(c);
  }
  aw_fill_mode = saved_mode; aw_fill_at = saved_at;
  long c0 = aw_count;
  uint64_t sc = o->run(m, s, &res);
  r.nalloc = aw_count - c0;
  aw_fill_mode = 0;
  uint64_t h = h64(0x10, sc);
  for (int k = 0; k < o->nmat; k++) { pm *f = pm_from_mzd(m[k]); h = h64(h, pm_hash(f)); pm_free(f); if (mzd_padding_dirty(m[k]) >= 0) r.pad = k; mzd_free(m[k]); }
  if (res) { pm *f = pm_from_mzd(res); h = h64(h, pm_hash(f)); pm_free(f); if (mzd_padding_dirty(res) >= 0) r.pad = 3; mzd_free(res); } else h = h64(h, 0xdead);
  r.dig = h;
  return r;
}

static void compare(const vop *o, const char *env, outcome base, outcome got, const char *desc) {
  vx_count("evals", 1);
  char sig[96]; snprintf(sig, sizeof sig, "%s|%s", o->name, env);
  if (got.dig != base.dig) vx_fail(sig, "outcome-differs", "%s: outcome differs from the baseline environment (fresh zeroed heap, no earlier calls)", desc);
  if (got.pad >= 0) vx_fail(sig, "padding", "%s: %s has non-zero bits beyond its last column", desc, got.pad == 3 ? "the returned matrix" : "an owned operand");
}

static void dirty_cache(const size_t *sizes, long n, int pattern) {
  /* allocate, dirty and free blocks of exactly the sizes the op will request: the block cache hands them back as "fresh" */
  int used = 0; size_t seen[16];
  for (long i = n - 1; i >= 0 && used < 16; i--) {
    size_t sz = sizes[i]; if (sz == 0 || sz > (1u << 22)) continue;
    int dup = 0; for (int q = 0; q < used; q++) if (seen[q] == sz) dup = 1;
    if (dup) continue;
    seen[used++] = sz;
    void *p = m4ri_mmc_malloc(sz);
    if (pattern == 1) memset(p, 0xFF, sz); else { unsigned char *b = p; for (size_t j = 0; j < sz; j++) b[j] = (unsigned char)(0x5C ^ (j * 29)); }
    m4ri_mmc_free(p, sz);
  }
}

static void env_cases(void) {
  int cap = vx_tier ? 1500 : vx_argi("fillcap", 48);
  for (int oi = 0; oi < NOPS; oi++) { const vop *o = &OPS[oi];
    for (int si = 0; si < o->nshapes; si++) for (int data = 0; data < 2; data++) {
      if (!vx_tier && data == 1 && si % 2) continue;
      const oshape *s = &o->shapes[si];
      vx_group();
      outcome base; int have = 0; size_t sizes[4096]; long nsizes = 0;
      char desc[160]; snprintf(desc, sizeof desc, "%s shape %d (%dx%d,%dx%d,%dx%d p=%d,%d,%d,%d) data %d", o->name, si, s->d[0][0], s->d[0][1], s->d[1][0], s->d[1][1], s->d[2][0], s->d[2][1], s->p[0], s->p[1], s->p[2], s->p[3], data);
      #define BASE() do { if (!have) { aw_nsizes = 0; base = run_owned(o, s, data, -1); nsizes = aw_nsizes < 4096 ? aw_nsizes : 4096; memcpy(sizes, aw_sizes, sizeof(size_t) * (size_t)nsizes); have = 1; m4ri_mmc_cleanup(); if (base.pad >= 0) vx_fail(o->name, "padding", "%s: non-zero padding in the baseline environment", desc); } } while (0)
      /* (i) heap content: all allocations dirty (two patterns), then each single allocation */
      for (int mode = 1; mode <= 2; mode++) {
        if (!vx_case_begin("%s|heap=all-%s|shape=%d|data=%d", o->name, mode == 1 ? "FF" : "A5", si, data)) continue;
        BASE();
        aw_fill_mode = mode; aw_fill_at = -1;
        outcome g = run_owned(o, s, data, -1);
        aw_fill_mode = 0;
        compare(o, "heap-all", base, g, desc);
        vx_input(base.dig ^ (uint64_t)mode, 1);
        vx_case_end();
      }
      /* number of allocation requests of the op itself: learn from a baseline in whichever worker owns the group */
      for (long i = 1; i <= cap; i++) {
        if (!vx_case_begin("%s|heap=single@%ld|shape=%d|data=%d", o->name, i, si, data)) continue;
        BASE();
        if (i > base.nalloc) { vx_case_end(); continue; } /* the op makes fewer requests: nothing to deviate */
        /* the i-th request made by the op (operand construction comes first: count those) */
        long pre = 0; { aw_fill_mode = 0; long c0 = aw_count; mzd_t *t[3]; for (int k = 0; k < o->nmat; k++) { pm *c = op_content(o, s, k, data); t[k] = mzd_from_pm(c); pm_free(c); } pre = aw_count - c0; for (int k = 0; k < o->nmat; k++) mzd_free(t[k]); m4ri_mmc_cleanup(); }
        long c1 = aw_count;
        aw_fill_mode = (i % 2) ? 1 : 2; aw_fill_at = c1 + pre + i;
        outcome g = run_owned(o, s, data, -1);
        aw_fill_mode = 0;
        compare(o, "heap-single", base, g, desc);
        vx_input(base.dig ^ ((uint64_t)i << 8), 1);
        vx_count("single_allocation_deviations", 1);
        vx_case_end();
      }
      /* (ii) recycled dirty blocks from the block cache */
      for (int pattern = 1; pattern <= 2; pattern++) {
        if (!vx_case_begin("%s|recycled=%d|shape=%d|data=%d", o->name, pattern, si, data)) continue;
        BASE();
        dirty_cache(sizes, nsizes, pattern);
        outcome g = run_owned(o, s, data, -1);
        compare(o, "recycled-blocks", base, g, desc);
        vx_input(base.dig ^ ((uint64_t)pattern << 40), 1);
        vx_case_end();
      }
      /* (iv) prior destination contents */
      int has_o = 0; for (int k = 0; k < o->nmat; k++) if (o->role[k] == 'o') has_o = 1;
      if (has_o) {
        for (int df = 1; df < 3; df++) {
          if (!vx_case_begin("%s|dst=%d|shape=%d|data=%d", o->name, df, si, data)) continue;
          /* reference: the same call with an all-zero destination (computed inside the case, so that replay by index is exact) */
          outcome ref = run_owned(o, s, data, 0); m4ri_mmc_cleanup();
          outcome g = run_owned(o, s, data, df);
          compare(o, "prior-destination", ref, g, desc);
          vx_input(g.dig ^ ((uint64_t)df << 44), 1);
          vx_case_end();
        }
      }
    }
  }
}

/* (iii) call histories: every ordered pair (triple) from a menu; Y's outcome after X == Y alone */
static const struct { const char *op; int shape; } MENU[] = {
  {"mzd_mul", 4}, {"mzd_mul", 8}, {"mzd_mul_m4rm", 3}, {"mzd_addmul", 9}, {"mzd_mul_naive", 1}, {"mzd_transpose", 4}, {"mzd_transpose(NULL)", 2},
  {"mzd_echelonize_m4ri", 6}, {"mzd_echelonize_m4ri", 7}, {"mzd_echelonize_pluq", 9}, {"mzd_echelonize", 10}, {"mzd_ple", 3}, {"mzd_pluq", 5}, {"_mzd_ple_russian", 3},
  {"mzd_trsm_upper_left", 4}, {"mzd_trsm_lower_left", 5}, {"mzd_trsm_upper_right", 4}, {"mzd_trsm_lower_right", 1}, {"mzd_inv_m4ri(NULL)", 3}, {"mzd_invert_naive(NULL)", 2},
  {"mzd_trtri_upper", 5}, {"mzd_solve_left", 5}, {"mzd_kernel_left_pluq", 3}, {"mzd_top_echelonize_m4ri", 3}, {"mzd_copy(NULL)", 4}, {"mzd_submatrix(NULL)", 2}, {"mzd_concat(NULL)", 2}, {"mzd_apply_p_right", 4}};
#define NMENU (int)(sizeof(MENU) / sizeof(MENU[0]))
static const vop *find_op(const char *name) { for (int i = 0; i < NOPS; i++) if (!strcmp(OPS[i].name, name)) return &OPS[i]; fprintf(stderr, "HARNESS-ERROR: menu op %s not in registry\n", name); _exit(2); }
static void history_cases(void) {
  for (int y = 0; y < NMENU; y++) {
    const vop *oy = find_op(MENU[y].op); const oshape *sy = &oy->shapes[MENU[y].shape % oy->nshapes];
    vx_group();
    outcome base; int have = 0;
    for (int x = 0; x < NMENU; x++) for (int x2 = -1; x2 < (vx_tier ? NMENU : 0); x2++) {
      if (!vx_case_begin("history|%s#%d|then|%s#%d|then|%s#%d", MENU[x].op, MENU[x].shape, x2 >= 0 ? MENU[x2].op : "-", x2 >= 0 ? MENU[x2].shape : 0, MENU[y].op, MENU[y].shape)) continue;
      if (!have) { base = run_owned(oy, sy, 0, -1); have = 1; m4ri_mmc_cleanup(); }
      const vop *ox = find_op(MENU[x].op); const oshape *sx = &ox->shapes[MENU[x].shape % ox->nshapes];
      (void)run_owned(ox, sx, 1, 1);
      if (x2 >= 0) { const vop *o2 = find_op(MENU[x2].op); (void)run_owned(o2, &o2->shapes[MENU[x2].shape % o2->nshapes], 0, 2); }
      outcome g = run_owned(oy, sy, 0, -1);
      char desc[200]; snprintf(desc, sizeof desc, "%s after %s%s%s", MENU[y].op, MENU[x].op, x2 >= 0 ? " and " : "", x2 >= 0 ? MENU[x2].op : "");
      compare(oy, "call-history", base, g, desc);
      vx_input(base.dig ^ ((uint64_t)x << 50) ^ ((uint64_t)(x2 + 1) << 56), 1);
      vx_case_end();
    }
    /* many live objects: N matrices stay alive (an early one released, so a header block has a hole while the current block is
       full) during Y; Y must neither change nor be changed by them */
    for (int nl = 0; nl < 3; nl++) {
      static const int NL[] = {64, 128, 192}; extern long m4ri_verif_mzd_headers_in_use(void);
      if (!vx_case_begin("history|%d-live-matrices-with-a-hole|then|%s#%d", NL[nl], MENU[y].op, MENU[y].shape)) continue;
      if (!have) { base = run_owned(oy, sy, 0, -1); have = 1; m4ri_mmc_cleanup(); }
      mzd_t *LV[200]; int n = 0;
      /* exactly NL headers in use (64 per header-cache block): the current block is full when Y asks for its first header */
      while (m4ri_verif_mzd_headers_in_use() < NL[nl] && n < 200) n++;
      n = (int)(NL[nl] - m4ri_verif_mzd_headers_in_use()); if (n < 6) n = 6; if (n > 200) n = 200;
      for (int i = 0; i < n; i++) { LV[i] = mzd_init(1 + (i % 3), 10 + i); mzd_write_bit(LV[i], 0, i % 10, 1); }
      mzd_free(LV[5]); LV[5] = NULL;
      outcome g = run_owned(oy, sy, 0, -1);
      char desc[200]; snprintf(desc, sizeof desc, "%s with %d live matrices (one released)", MENU[y].op, n);
      compare(oy, "call-history", base, g, desc);
      for (int i = 0; i < n; i++) if (LV[i]) { if (LV[i]->nrows != 1 + (i % 3) || LV[i]->ncols != 10 + i || !mzd_read_bit(LV[i], 0, i % 10)) { vx_fail(oy->name, "bystander-changed", "%s: live matrix %d (%dx%d) was changed by the operation", desc, i, 1 + (i % 3), 10 + i); break; } }
      for (int i = 0; i < n; i++) if (LV[i]) mzd_free(LV[i]);
      vx_input(base.dig ^ (0x99ULL << 50) ^ (uint64_t)nl, 1);
      vx_case_end();
    }
    /* library-level history: explicit m4ri_fini() (optionally after a call that warmed the caches), heap traffic, m4ri_init(), then Y */
    for (int warm = 0; warm < 2; warm++) {
      if (!vx_case_begin("history|%sm4ri_fini;m4ri_init|then|%s#%d", warm ? "mzd_mul;" : "", MENU[y].op, MENU[y].shape)) continue;
      if (!have) { base = run_owned(oy, sy, 0, -1); have = 1; m4ri_mmc_cleanup(); }
      if (warm) { const vop *ox = find_op("mzd_mul"); (void)run_owned(ox, &ox->shapes[4 % ox->nshapes], 1, 1); }
      m4ri_fini();
      { void *junk[48]; for (int i = 0; i < 48; i++) { junk[i] = vx_malloc(64 + 40 * (size_t)i); memset(junk[i], 0xA5, 64 + 40 * (size_t)i); } for (int i = 0; i < 48; i++) vx_free(junk[i]); }
      m4ri_init();
      outcome g = run_owned(oy, sy, 0, -1);
      char desc[200]; snprintf(desc, sizeof desc, "%s after m4ri_fini() + m4ri_init()", MENU[y].op);
      compare(oy, "call-history", base, g, desc);
      vx_input(base.dig ^ (0x77ULL << 50) ^ (uint64_t)warm, 1);
      vx_case_end();
    }
  }
}

void prop_enumerate(void) {
  const char *mode = vx_arg("mode", "env");
  if (!strcmp(mode, "env")) env_cases(); else history_cases();
}
int main(int argc, char **argv) { return vx_main(argc, argv); }
