/* Allocator interposition by SYMBOL DEFINITION instead of --wrap: malloc / calloc / realloc / free / posix_memalign / memalign /
 * aligned_alloc are defined in the executable, so every allocation of the process - including those libpng and zlib make inside
 * mzd_from_png / mzd_to_png - goes through the same counting / failure-injection logic as alloc_wrap.c.  Only usable in builds
 * without ASan (the sanitizer owns these symbols).  m4ri_die is still taken over with --wrap=m4ri_die. */
#include "alloc_wrap.c"
#include <malloc.h>
extern void *__libc_malloc(size_t); extern void *__libc_calloc(size_t, size_t); extern void *__libc_realloc(void *, size_t);
extern void __libc_free(void *); extern void *__libc_memalign(size_t, size_t);
void *__real_malloc(size_t n) { return __libc_malloc(n); }
void *__real_calloc(size_t a, size_t b) { return __libc_calloc(a, b); }
void *__real_realloc(void *p, size_t n) { return __libc_realloc(p, n); }
void __real_free(void *p) { __libc_free(p); }
int __real_posix_memalign(void **out, size_t al, size_t n) { void *p = __libc_memalign(al, n); if (!p) return ENOMEM; *out = p; return 0; }
void *malloc(size_t n) { return __wrap_malloc(n); }
void *calloc(size_t a, size_t b) { return __wrap_calloc(a, b); }
void *realloc(void *p, size_t n) { return __wrap_realloc(p, n); }
void free(void *p) { __wrap_free(p); }
int posix_memalign(void **out, size_t al, size_t n) { return __wrap_posix_memalign(out, al, n); }
void *memalign(size_t al, size_t n) { void *p = NULL; return __wrap_posix_memalign(&p, al, n) ? NULL : p; }
void *aligned_alloc(size_t al, size_t n) { void *p = NULL; return __wrap_posix_memalign(&p, al, n) ? NULL : p; }
