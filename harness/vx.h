/* vx: shared layer of the bounded-exhaustive explorers (BEX): reference model, pattern
 * alphabets, window placement, case sharding over forked workers, failure records, allocator wrapper.
 * The reference model shares no code, macro or table with m4ri: it reads an mzd_t through its
 * struct fields only (nrows, ncols, rowstride, data). */
#ifndef VX_H
#define VX_H
#include <stdint.h>
#include <stddef.h>
#include <stdio.h>
#include <stdlib.h>
#include <string.h>
#include <m4ri/m4ri.h>
#include <m4ri/mmc.h>
#ifdef VX_ICB
/* ICB builds wrap memset/memcpy to see the library's bulk accesses; harness code bypasses the wrapper */
void *__real_memset(void *, int, size_t); void *__real_memcpy(void *, const void *, size_t);
#define memset __real_memset
#define memcpy __real_memcpy
#endif

/* harness-side allocation that the allocator wrapper does not count */
void *vx_malloc(size_t n);
void vx_free(void *p);

/* ---------- packed reference matrices ---------- */
typedef struct { int r, c, w; uint64_t *d; } pm;
pm *pm_new(int r, int c);
void pm_free(pm *m);
pm *pm_copy(const pm *m);
static inline int pm_get(const pm *m, int i, int j) { return (int)((m->d[(size_t)i * m->w + (j >> 6)] >> (j & 63)) & 1); }
static inline void pm_set(pm *m, int i, int j, int v) {
  uint64_t *p = &m->d[(size_t)i * m->w + (j >> 6)];
  *p = (*p & ~(1ULL << (j & 63))) | ((uint64_t)(v & 1) << (j & 63));
}
static inline void pm_flip(pm *m, int i, int j) { m->d[(size_t)i * m->w + (j >> 6)] ^= 1ULL << (j & 63); }
int pm_eq(const pm *a, const pm *b);
int pm_is_zero(const pm *a);
pm *pm_mul(const pm *a, const pm *b);
pm *pm_add(const pm *a, const pm *b);
pm *pm_transpose(const pm *a);
pm *pm_identity(int n);
pm *pm_sub(const pm *a, int r0, int c0, int r1, int c1); /* rows [r0,r1) cols [c0,c1) */
pm *pm_concat(const pm *a, const pm *b);
pm *pm_stack(const pm *a, const pm *b);
void pm_swap_rows(pm *a, int i, int j);
void pm_swap_cols(pm *a, int i, int j);
void pm_swap_cols_rows(pm *a, int i, int j, int r0, int r1);
void pm_row_add(pm *a, int dst, int src); /* dst += src */
/* Gaussian elimination in place; full=1 -> RREF. returns rank; piv (if non-NULL, size >= min(r,c)) gets pivot columns */
int pm_echelon(pm *a, int full, int *piv);
int pm_rank(const pm *a);
pm *pm_rref(const pm *a);
pm *pm_inverse(const pm *a);            /* NULL if singular */
int pm_solvable(const pm *a, const pm *b); /* exists X with a*X == b (b has a->r rows) */
uint64_t pm_hash(const pm *a);
void pm_print(FILE *f, const pm *a);
/* is a in row echelon form per the property statement? (strictly increasing pivot columns, zero rows last) */
int pm_is_row_echelon(const pm *a);

/* byte-per-entry reference (self-check of the packed one) */
int vx_selfcheck(void); /* returns number of comparisons, dies on mismatch */

/* ---------- mzd <-> pm through raw struct fields ---------- */
pm *pm_from_mzd(const mzd_t *A);
mzd_t *mzd_from_pm(const pm *a);                 /* owned, via mzd_init, padding zero */
void mzd_write_pm(mzd_t *A, const pm *a);        /* write entries of a into A (same dims), other bits untouched */
int mzd_eq_pm(const mzd_t *A, const pm *a);
/* excess bits of last word of every row zero? returns index of first offending row or -1 */
int mzd_padding_dirty(const mzd_t *A);

/* ---------- pattern alphabet ---------- */
enum { P_Z, P_O, P_U, P_LBL, P_NLBL, P_CHK, P_ID, P_ANTI, P_PR, P_ROWSTRIPE, P_COLSTRIPE, P_WORDSTRIPE, P_SHID, P_UT, P_LT, P_CYC, P_CYCT };
typedef struct { int kind, a, b; } pat; /* U: (a,b) entry; LBL: bit a; PR: a = density code (0:1/2, 1:1/16, 2:15/16), b = salt */
void pm_fill(pm *m, pat p);
pm *pm_pat(int r, int c, pat p);
const char *pat_str(pat p, char *buf);
int lbl_bits(int r, int c); /* number of label planes for an r x c frame */
extern uint64_t vx_seed;
uint64_t vx_rand(uint64_t *s);
/* fixed dense invertible n x n (product of unit lower and unit upper PRBS factors and a permutation) */
pm *pm_dense_invertible(int n, int salt);
pm *pm_unit_upper(int n, int salt, int dens);
pm *pm_unit_lower(int n, int salt, int dens);
pm *pm_kron(const pm *M, const pm *J);

/* ---------- window placement ---------- */
typedef struct {
  mzd_t *parent, *view;
  int r, c, rowoff, wordoff, trailw, trailr, fill;
  uint64_t *snap; size_t snapwords;
} vwin;
/* fill: 0 zeros, 1 ones, 2 PR.  If make_window==0 the "view" is an owned standalone matrix (parent NULL). */
extern int vw_nest; /* 1: vw_make creates the view through an intermediate view (view of a view) */
vwin vw_make(const pm *content, int make_window, int rowoff, int wordoff, int trailw, int trailr, int fill);
void vw_snapshot(vwin *w);           /* record all parent words (or owned words) */
/* compare parent outside the view rectangle with snapshot: returns 0 if unchanged, else 1 and describes first diff */
int vw_outside_changed(const vwin *w, char *msg, size_t n);
int vw_all_unchanged(const vwin *w, char *msg, size_t n); /* whole allocation incl. view identical to snapshot */
void vw_free(vwin *w);

/* ---------- case runner ---------- */
extern int vx_tier; /* 0 quick, 1 thorough */
extern const char *vx_property;
void vx_group(void); /* start a new group: all following cases (until the next vx_group) go to the same worker */
int vx_case_begin(const char *fmt, ...) __attribute__((format(printf, 1, 2)));
void vx_case_end(void);
/* mark current case's input as nontrivial with the given digest (for distinct_nontrivial) */
void vx_input(uint64_t digest, int nontrivial);
void vx_fail(const char *sig, const char *clause, const char *fmt, ...) __attribute__((format(printf, 3, 4)));
#define VX_CHECK(cond, sig, clause, ...) do { if (!(cond)) vx_fail(sig, clause, __VA_ARGS__); } while (0)
void vx_count(const char *name, uint64_t n); /* named counters (summed over workers), max 32 names */
void vx_sample(const char *s);                /* force current id into samples */
int vx_deadline_hit(void);
/* implemented by each property */
void prop_enumerate(void);
extern const char *prop_id;
int vx_main(int argc, char **argv);
const char *vx_arg(const char *name, const char *dflt); /* --name=value harness args */
int vx_argi(const char *name, int dflt);

/* ---------- allocator wrapper (alloc_wrap.c) ---------- */
extern long aw_live;        /* live blocks allocated while tracking */
extern long aw_count;       /* allocation requests while tracking */
extern int aw_tracking;
extern long aw_fail_at;     /* 1-based index of request that fails (0 = never) */
extern int aw_fill_mode;    /* 0 none, 1: 0xFF, 2: 0xA5 pattern, applied to request aw_fill_at (or all if aw_fill_at==-1) */
extern long aw_fill_at;
extern int aw_die_entered;  /* set by __wrap_m4ri_die */
extern char aw_die_msg[256];
extern long aw_failed_site; /* return address of the failed request */
void aw_reset(void);
/* run f(arg) in a forked child; returns fate: 0 returned normally (child's *ret passed back), 1 m4ri_die+abort,
 * 2 abort with a sanitizer report, 3 SIGSEGV/SIGBUS, 4 other signal, 5 exit nonzero, 6 timeout, 7 abort() without sanitizer report and
 * without m4ri_die (e.g. libpng's default error handler) */
typedef struct { int fate; int sig; int status; int die_entered; char die_msg[256]; char note[512]; uint64_t ret; long nalloc; long site; } vx_fate;
vx_fate vx_fork_call(uint64_t (*f)(void *), void *arg, int timeout_s);

#endif
