/* C20: allocation failure always ends in the library's controlled abort.
 * For every scenario and every i: the i-th allocation request of the scenario fails (all earlier ones succeed), in a forked child. */
#define _GNU_SOURCE
#include "ops.h"
#include <unistd.h>
const char *prop_id = "C20";

typedef struct { int kind; const vop *o; const oshape *s; int aux; long fail_at; const char *fn; } scen;
enum { K_OP, K_CREATE, K_WINDOW, K_MZP, K_PNG_WRITE, K_PNG_READ, K_DJB, K_FROM_STR, K_JCF, K_N };
static uint64_t hstr_c20(const char *a, const char *b) { uint64_t h = 1469598103934665603ULL; for (; *a; a++) { h ^= (unsigned char)*a; h *= 1099511628211ULL; } for (; *b; b++) { h ^= (unsigned char)*b; h *= 1099511628211ULL; } return h; }
static mzd_t *SM[3]; /* operands prepared by the parent (inherited by the child) */
static char TMP[600];

static uint64_t scen_body(void *a) {
  scen *q = a; mzd_t *res = NULL;
  aw_reset(); aw_fail_at = q->fail_at; aw_tracking = 1;
  switch (q->kind) {
  case K_OP: (void)q->o->run(SM, q->s, &res); break;
  case K_CREATE: { static const int D[][2] = {{1, 1}, {64, 64}, {100, 200}, {0, 5}, {3000, 3000}, {4096, 4096}}; mzd_t *A = mzd_init(D[q->aux][0], D[q->aux][1]); if (D[q->aux][0]) mzd_write_bit(A, D[q->aux][0] - 1, D[q->aux][1] - 1, 1); mzd_t *B = mzd_copy(NULL, A); mzd_free(B); mzd_free(A); break; }
  case K_WINDOW: { mzd_t *W = mzd_init_window(SM[0], 1, 64, 3, 100); mzd_t *W2 = mzd_init_window(W, 0, 0, 1, 10); mzd_write_bit(W2, 0, 0, 1); mzd_free(W2); mzd_free(W); break; }
  case K_MZP: { mzp_t *P = mzp_init(100); mzp_t *Q = mzp_copy(NULL, P); mzp_t *W = mzp_init_window(P, 3, 50); mzp_free_window(W); mzp_free(Q); mzp_free(P); break; }
  case K_PNG_WRITE: { int rc = mzd_to_png(SM[0], q->fn, -1, "c20", 0);
    if (q->aux) { /* verify mode: a claimed success must have produced a file that reads back as the matrix */
      aw_tracking = 0; aw_fail_at = 0; if (rc == 0) { mzd_t *A = mzd_from_png(q->fn, 0); int ok = A && mzd_equal(A, SM[0]); if (A) mzd_free(A); return ok ? 1 : 2; } return 1; }
    break; }
  case K_PNG_READ: { mzd_t *A = mzd_from_png(q->fn, 0);
    if (q->aux) { aw_tracking = 0; aw_fail_at = 0; int ok = !A || mzd_equal(A, SM[0]); if (A) mzd_free(A); return ok ? 1 : 2; } /* NULL (rejected) or exactly the matrix */
    if (A) mzd_free(A); break; }
  case K_DJB: { djb_t *z = djb_compile(SM[0]); mzd_t *W = mzd_init(SM[0]->nrows, SM[1]->ncols); djb_apply_mzd(z, W, SM[1]); mzd_free(W); djb_free(z); break; }
  case K_FROM_STR: { mzd_t *A = mzd_from_str(3, 3, "101010101"); mzd_free(A); break; }
  case K_JCF: { mzd_t *A = mzd_from_jcf(q->fn, 0); if (A) mzd_free(A); break; }
  }
  aw_tracking = 0;
  if (res) mzd_free(res);
  return 1;
}

/* count the allocation requests of the scenario without failure (in a child, so that caches start identical) */
static uint64_t count_body(void *a) { scen *q = a; q->fail_at = 0; scen_body(q); return (uint64_t)aw_count; }

static void run_scenario(scen *q, const char *name, const char *desc, int cap) {
  vx_group();
  long N = -1;
  for (long i = 0; i <= cap; i++) {
    if (!vx_case_begin("%s|%s|fail@%ld", name, desc, i)) continue;
    if (N < 0) { vx_fate c = vx_fork_call(count_body, q, 60); if (c.fate != 0) { vx_fail(name, "baseline", "%s: the scenario does not complete without fault injection (fate %d: %s %s)", desc, c.fate, c.die_msg, c.note); N = 0; } else N = (long)c.ret; }
    if (i == 0) { vx_count("allocation_requests", (uint64_t)N); vx_input(hstr_c20(name, desc), 0); vx_case_end(); continue; }
    if (i > N) { vx_case_end(); continue; }
    q->fail_at = i;
    vx_fate ft = vx_fork_call(scen_body, q, 60);
    char sig[96]; snprintf(sig, sizeof sig, "%s", name);
    if (ft.fate == 0) vx_fail(sig, "continued-after-failure", "%s: request %ld of %ld failed but the call returned normally", desc, i, N);
    else if (ft.fate == 1) { if (!ft.die_msg[0]) vx_fail(sig, "no-diagnostic", "%s: request %ld: m4ri_die without a message", desc, i); }
    else vx_fail(sig, "uncontrolled-termination", "%s: request %ld of %ld failed: fate %d signal %d, m4ri_die entered: %d; %s", desc, i, N, ft.fate, ft.sig, ft.die_entered, ft.note);
    vx_count("evals", 1);
    vx_input((uint64_t)ft.site * 0x9E3779B97F4A7C15ULL + 1, 1); /* distinct failing call sites */
    vx_case_end();
  }
}

/* non-initial header-cache states: the scenario starts with exactly `target` matrix headers in use (64 per cache block), so
   its first header request has to allocate a new cache block (or finds the last slot of a block, or a fresh block) */
extern long m4ri_verif_mzd_headers_in_use(void);
static mzd_t *LIVE[400]; static int nlive;
static void live_to(long target) { while (m4ri_verif_mzd_headers_in_use() < target && nlive < 400) LIVE[nlive++] = mzd_init(1, 1); }
static void live_drop(void) { while (nlive > 0) mzd_free(LIVE[--nlive]); m4ri_mmc_cleanup(); }

void prop_enumerate(void) {
  snprintf(TMP, sizeof TMP, "%s", vx_arg("errdir", "/tmp"));
  int cap = vx_tier ? 1200 : 160;
  if (!strcmp(vx_arg("mode", "fresh"), "pnglib")) {
    /* EVERY allocation made during a PNG read / write, including libpng's and zlib's own (allocator interposed by symbol
       definition, plain build): each one fails in turn.  Admissible outcomes: controlled abort (m4ri_die, or libpng's error
       handler: diagnostic + abort), an error return (NULL / non-zero), or a complete and correct result when the failed request
       was not essential.  Never a matrix / file that claims success but holds something else. */
    static char fn2[700]; static const int SH[][2] = {{9, 70}, {3, 200}, {64, 64}, {130, 5}};
    for (int si = 0; si < 4; si++) {
      snprintf(fn2, sizeof fn2, "%s/c20lib-%d-%d.png", TMP, (int)getpid(), si);
      pm *c = pm_pat(SH[si][0], SH[si][1], (pat){P_PR, 0, 1}); SM[0] = mzd_from_pm(c); pm_free(c);
      for (int wr = 1; wr >= 0; wr--) {
        if (!wr) mzd_to_png(SM[0], fn2, -1, "c20", 0);
        scen q = {wr ? K_PNG_WRITE : K_PNG_READ, NULL, NULL, 1, 0, fn2}; char d[48]; snprintf(d, sizeof d, "%dx%d|all-allocations", SH[si][0], SH[si][1]);
        const char *name = wr ? "mzd_to_png(incl. libpng/zlib requests)" : "mzd_from_png(incl. libpng/zlib requests)";
        vx_group(); long N = -1;
        for (long i = 0; i <= 400; i++) {
          if (!vx_case_begin("%s|%s|fail@%ld", name, d, i)) continue;
          if (N < 0) { vx_fate cfa = vx_fork_call(count_body, &q, 60); q.aux = 1; if (cfa.fate != 0) { vx_fail(name, "baseline", "%s: does not complete without fault injection (fate %d %s)", d, cfa.fate, cfa.note); N = 0; } else N = (long)cfa.ret; }
          if (i == 0) { vx_count("allocation_requests", (uint64_t)N); vx_input(hstr_c20(name, d), 0); vx_case_end(); continue; }
          if (i > N) { vx_case_end(); continue; }
          q.fail_at = i; q.aux = 1;
          vx_fate ft = vx_fork_call(scen_body, &q, 60);
          if (getenv("C20_DEBUG")) fprintf(stderr, "%s %s fail@%ld/%ld: fate %d ret %llu die=%d note=%.60s\n", name, d, i, N, ft.fate, (unsigned long long)ft.ret, ft.die_entered, ft.note);
          if (ft.fate == 0) { if (ft.ret == 2) vx_fail(name, "wrong-result-after-failure", "%s: request %ld of %ld failed and the call claimed success with a wrong result", d, i, N); }
          else if (ft.fate == 1) { if (!ft.die_msg[0]) vx_fail(name, "no-diagnostic", "%s: request %ld: m4ri_die without a message", d, i); }
          else if (ft.fate == 7) { /* libpng's own error handler: diagnostic + abort */ }
          else vx_fail(name, "uncontrolled-termination", "%s: request %ld of %ld failed: fate %d signal %d; %s", d, i, N, ft.fate, ft.sig, ft.note);
          vx_count("evals", 1); vx_input((uint64_t)ft.site * 0x9E3779B97F4A7C15ULL + (uint64_t)ft.fate, 1);
          vx_case_end();
        }
      }
      unlink(fn2); mzd_free(SM[0]); SM[0] = NULL;
    }
    return;
  }
  if (!strcmp(vx_arg("mode", "fresh"), "prestate")) {
    static const long TG[] = {64, 128, 63, 65, 127, 192};
    for (int t = 0; t < (vx_tier ? 6 : 4); t++) {
      char d[48];
      for (int a = 0; a < 3; a++) { live_to(TG[t]); scen q = {K_CREATE, NULL, NULL, a, 0, NULL}; snprintf(d, sizeof d, "size-class=%d|headers-in-use=%ld", a, TG[t]); run_scenario(&q, "create(mzd_init+mzd_copy)", d, cap); live_drop(); }
      { pm *c = pm_pat(5, 200, (pat){P_PR, 0, 1}); SM[0] = mzd_from_pm(c); pm_free(c); live_to(TG[t]); scen q = {K_WINDOW, NULL, NULL, 0, 0, NULL}; snprintf(d, sizeof d, "5x200|headers-in-use=%ld", TG[t]); run_scenario(&q, "window(mzd_init_window)", d, cap); live_drop(); mzd_free(SM[0]); SM[0] = NULL; }
      static const char *ON[] = {"mzd_mul", "mzd_pluq", "mzd_transpose", "mzd_echelonize_m4ri", "mzd_solve_left", "mzd_kernel_left_pluq", "mzd_trsm_upper_left", "mzd_inv_m4ri"};
      for (int oi = 0; oi < NOPS; oi++) { const vop *o = &OPS[oi]; int want = 0; for (int k = 0; k < 8; k++) if (!strcmp(o->name, ON[k])) want = 1; if (!want || (t >= 2 && !vx_tier)) continue;
        const oshape *s = &o->shapes[0];
        for (int k = 0; k < o->nmat; k++) { pm *c = op_content(o, s, k, 0); SM[k] = mzd_from_pm(c); pm_free(c); }
        live_to(TG[t]); scen q = {K_OP, o, s, 0, 0, NULL}; snprintf(d, sizeof d, "shape=0|headers-in-use=%ld", TG[t]); run_scenario(&q, o->name, d, cap); live_drop();
        for (int k = 0; k < o->nmat; k++) { mzd_free(SM[k]); SM[k] = NULL; }
        m4ri_mmc_cleanup(); }
    }
    return;
  }
  /* every registered operation */
  for (int oi = 0; oi < NOPS; oi++) { const vop *o = &OPS[oi];
    for (int si = 0; si < o->nshapes; si++) {
      if (!vx_tier && !(si == 0 || si == o->nshapes - 1 || si == o->nshapes / 2)) continue;
      const oshape *s = &o->shapes[si];
      for (int k = 0; k < o->nmat; k++) { pm *c = op_content(o, s, k, 0); SM[k] = mzd_from_pm(c); pm_free(c); }
      scen q = {K_OP, o, s, 0, 0, NULL};
      char desc[64]; snprintf(desc, sizeof desc, "shape=%d", si);
      run_scenario(&q, o->name, desc, cap);
      for (int k = 0; k < o->nmat; k++) { mzd_free(SM[k]); SM[k] = NULL; }
      m4ri_mmc_cleanup();
    }
  }
  /* create / window / permutation objects */
  for (int a = 0; a < 6; a++) { scen q = {K_CREATE, NULL, NULL, a, 0, NULL}; char d[32]; snprintf(d, sizeof d, "size-class=%d", a); run_scenario(&q, "create(mzd_init+mzd_copy)", d, cap); }
  { pm *c = pm_pat(5, 200, (pat){P_PR, 0, 1}); SM[0] = mzd_from_pm(c); pm_free(c); scen q = {K_WINDOW, NULL, NULL, 0, 0, NULL}; run_scenario(&q, "window(mzd_init_window)", "5x200", cap); mzd_free(SM[0]); SM[0] = NULL; }
  { scen q = {K_MZP, NULL, NULL, 0, 0, NULL}; run_scenario(&q, "mzp_init/copy/window", "len=100", cap); }
  { scen q = {K_FROM_STR, NULL, NULL, 0, 0, NULL}; run_scenario(&q, "mzd_from_str", "3x3", cap); }
  /* file I/O */
  static char fn[700], fj[700];
  snprintf(fn, sizeof fn, "%s/c20-%d.png", TMP, (int)getpid()); snprintf(fj, sizeof fj, "%s/c20-%d.jcf", TMP, (int)getpid());
  { pm *c = pm_pat(9, 70, (pat){P_PR, 0, 1}); SM[0] = mzd_from_pm(c); pm_free(c);
    scen q = {K_PNG_WRITE, NULL, NULL, 0, 0, fn}; run_scenario(&q, "mzd_to_png", "9x70", cap);
    mzd_to_png(SM[0], fn, -1, "c20", 0);
    scen q2 = {K_PNG_READ, NULL, NULL, 0, 0, fn}; run_scenario(&q2, "mzd_from_png", "9x70", cap);
    FILE *f = fopen(fj, "w"); fputs("2 5 2\n3\n\n-1\n3\n-5\n", f); fclose(f);
    scen q3 = {K_JCF, NULL, NULL, 0, 0, fj}; run_scenario(&q3, "mzd_from_jcf", "2x5", cap);
    unlink(fn); unlink(fj);
    mzd_free(SM[0]); SM[0] = NULL; }
  /* DJB compile + apply: the operation log grows by realloc */
  static const int DJ[][3] = {{8, 8, 8}, {40, 64, 64}, {100, 130, 130}};
  for (int i = 0; i < 3; i++) { pm *a = pm_pat(DJ[i][0], DJ[i][1], (pat){P_PR, 0, 3}), *b = pm_pat(DJ[i][1], DJ[i][2], (pat){P_PR, 0, 4}); SM[0] = mzd_from_pm(a); SM[1] = mzd_from_pm(b); pm_free(a); pm_free(b);
    scen q = {K_DJB, NULL, NULL, 0, 0, NULL}; char d[32]; snprintf(d, sizeof d, "%dx%d", DJ[i][0], DJ[i][1]); run_scenario(&q, "djb_compile+djb_apply_mzd", d, cap);
    mzd_free(SM[0]); mzd_free(SM[1]); SM[0] = SM[1] = NULL; }
}
int main(int argc, char **argv) { return vx_main(argc, argv); }
