/* Op registry (DESIGN.md 3.3): one table drives C09 (views), C10 (purity), C11 (memory safety).
 * For each public entry point: operand roles, content kinds, a list of shapes (dims + parameter) and an invoke thunk.
 * role: 'i' read-only, 'o' overwritten (prior content irrelevant), 'x' read and modified.
 * kind: 'g' generic, 'U' unit upper triangular, 'L' unit lower triangular, 'I' invertible, 'E' identity, 'R' row echelon (non reduced). */
#ifndef OPS_H
#define OPS_H
#include "vx.h"

typedef struct { int d[3][2]; int p[4]; } oshape;
typedef struct vop {
  const char *name; int nmat; const char *role; const char *kind;
  int nshapes; const oshape *shapes;
  uint64_t (*run)(mzd_t **m, const oshape *s, mzd_t **res);
  int nowin; /* bit k set: operand k is never placed as a window by C09 (scratch table of the caller; debug hash of the raw words;
                 internal routine that the library only calls on aligned copies) */
} vop;

static uint64_t h64(uint64_t h, uint64_t v) { h ^= v + 0x9e3779b97f4a7c15ULL + (h << 6) + (h >> 2); return h; }
static uint64_t hperm(uint64_t h, const mzp_t *P) { for (int i = 0; i < P->length; i++) h = h64(h, (uint64_t)P->values[i]); return h; }

#define RUN(nm) static uint64_t run_##nm(mzd_t **m, const oshape *s, mzd_t **res)
#define UNUSED (void)m; (void)s; (void)res
RUN(copy) { UNUSED; mzd_copy(m[0], m[1]); return 0; }
RUN(copy_new) { UNUSED; *res = mzd_copy(NULL, m[0]); return 0; }
RUN(add) { UNUSED; mzd_add(m[0], m[1], m[2]); return 0; }
RUN(_add) { UNUSED; _mzd_add(m[0], m[1], m[2]); return 0; }
RUN(add_new) { UNUSED; *res = mzd_add(NULL, m[0], m[1]); return 0; }
RUN(add_ca) { UNUSED; mzd_add(m[0], m[0], m[1]); return 0; }
RUN(add_cb) { UNUSED; mzd_add(m[0], m[1], m[0]); return 0; }
RUN(transpose) { UNUSED; mzd_transpose(m[0], m[1]); return 0; }
RUN(transpose_new) { UNUSED; *res = mzd_transpose(NULL, m[0]); return 0; }
RUN(submatrix) { UNUSED; mzd_submatrix(m[0], m[1], s->p[0], s->p[1], s->p[0] + s->d[0][0], s->p[1] + s->d[0][1]); return 0; }
RUN(submatrix_new) { UNUSED; *res = mzd_submatrix(NULL, m[0], s->p[0], s->p[1], s->p[0] + s->p[2], s->p[1] + s->p[3]); return 0; }
RUN(concat) { UNUSED; mzd_concat(m[0], m[1], m[2]); return 0; }
RUN(concat_new) { UNUSED; *res = mzd_concat(NULL, m[0], m[1]); return 0; }
RUN(stack) { UNUSED; mzd_stack(m[0], m[1], m[2]); return 0; }
RUN(stack_new) { UNUSED; *res = mzd_stack(NULL, m[0], m[1]); return 0; }
RUN(extract_u) { UNUSED; mzd_extract_u(m[0], m[1]); return 0; }
RUN(extract_l) { UNUSED; mzd_extract_l(m[0], m[1]); return 0; }
RUN(extract_u_new) { UNUSED; *res = mzd_extract_u(NULL, m[0]); return 0; }
RUN(extract_l_new) { UNUSED; *res = mzd_extract_l(NULL, m[0]); return 0; }
RUN(set_ui0) { UNUSED; mzd_set_ui(m[0], 0); return 0; }
RUN(set_ui1) { UNUSED; mzd_set_ui(m[0], 1); return 0; }
RUN(copy_row) { UNUSED; mzd_copy_row(m[0], s->p[0], m[1], s->p[1]); return 0; }
RUN(row_swap) { UNUSED; mzd_row_swap(m[0], s->p[0], s->p[1]); return 0; }
RUN(_row_swap) { UNUSED; _mzd_row_swap(m[0], s->p[0], s->p[1], s->p[2]); return 0; }
RUN(col_swap) { UNUSED; mzd_col_swap(m[0], s->p[0], s->p[1]); return 0; }
RUN(col_swap_in_rows) { UNUSED; mzd_col_swap_in_rows(m[0], s->p[0], s->p[1], s->p[2], s->p[3]); return 0; }
RUN(row_add) { UNUSED; mzd_row_add(m[0], s->p[0], s->p[1]); return 0; }
RUN(row_add_offset) { UNUSED; mzd_row_add_offset(m[0], s->p[0], s->p[1], s->p[2]); return 0; }
RUN(row_clear_offset) { UNUSED; mzd_row_clear_offset(m[0], s->p[0], s->p[1]); return 0; }
RUN(xor_bits) { UNUSED; mzd_xor_bits(m[0], s->p[0], s->p[1], s->p[2], 0x5A5A5A5A5A5A5A5AULL >> (64 - s->p[2])); return 0; }
RUN(clear_bits) { UNUSED; mzd_clear_bits(m[0], s->p[0], s->p[1], s->p[2]); return 0; }
RUN(write_bit) { UNUSED; mzd_write_bit(m[0], s->p[0], s->p[1], 1); mzd_write_bit(m[0], s->p[2], s->p[3], 0); return 0; }
RUN(combine) { UNUSED; mzd_combine(m[0], s->p[0], s->p[3], m[1], s->p[1], s->p[3], m[2], s->p[2], s->p[3]); return 0; }
RUN(combine_inplace) { UNUSED; mzd_combine(m[0], s->p[0], s->p[3], m[0], s->p[0], s->p[3], m[1], s->p[2], s->p[3]); return 0; }
static mzp_t *mkperm(int len, int salt) { mzp_t *P = mzp_init(len); uint64_t st = 0x4242 + (uint64_t)salt; for (int i = 0; i < len; i++) P->values[i] = i + (int)(vx_rand(&st) % (uint64_t)(len - i)); return P; }
RUN(p_left) { UNUSED; mzp_t *P = mkperm(m[0]->nrows, 1); mzd_apply_p_left(m[0], P); mzp_free(P); return 0; }
RUN(p_left_trans) { UNUSED; mzp_t *P = mkperm(m[0]->nrows, 2); mzd_apply_p_left_trans(m[0], P); mzp_free(P); return 0; }
RUN(p_right) { UNUSED; mzp_t *P = mkperm(m[0]->ncols, 3); mzd_apply_p_right(m[0], P); mzp_free(P); return 0; }
RUN(p_right_trans) { UNUSED; mzp_t *P = mkperm(m[0]->ncols, 4); mzd_apply_p_right_trans(m[0], P); mzp_free(P); return 0; }
RUN(p_right_trans_tri) { UNUSED; mzp_t *P = mkperm(m[0]->ncols, 5); mzd_apply_p_right_trans_tri(m[0], P); mzp_free(P); return 0; }
RUN(p_right_trans_capped) { UNUSED; mzp_t *P = mkperm(m[0]->ncols, 6); mzd_apply_p_right_trans_even_capped(m[0], P, s->p[0], 0); mzp_free(P); return 0; }
RUN(equal) { UNUSED; return (uint64_t)(mzd_equal(m[0], m[1]) != 0) | ((uint64_t)(mzd_equal(m[0], m[0]) != 0) << 1); }
RUN(cmp) { UNUSED; int c = mzd_cmp(m[0], m[1]); return (uint64_t)(c > 0 ? 1 : c < 0 ? 2 : 0); }
RUN(is_zero) { UNUSED; return (uint64_t)(mzd_is_zero(m[0]) != 0); }
RUN(first_zero_row) { UNUSED; return (uint64_t)mzd_first_zero_row(m[0]); }
RUN(find_pivot) { UNUSED; rci_t r = -1, c = -1; int f = mzd_find_pivot(m[0], s->p[0], s->p[1], &r, &c); return f ? h64(h64(1, (uint64_t)c), 0) : 0; /* any row holding a one there is acceptable */ }
RUN(read_bits) { UNUSED; uint64_t h = 0; for (int i = 0; i < m[0]->nrows; i++) for (int y = 0; y + s->p[0] <= m[0]->ncols; y += 7) h = h64(h, mzd_read_bits(m[0], i, y, s->p[0])); return h; }
RUN(hash) { UNUSED; return mzd_hash(m[0]); }
RUN(density) { UNUSED; double d = mzd_density(m[0], 1); uint64_t u; memcpy(&u, &d, 8); return u; }
RUN(mul_naive) { UNUSED; mzd_mul_naive(m[0], m[1], m[2]); return 0; }
RUN(addmul_naive) { UNUSED; mzd_addmul_naive(m[0], m[1], m[2]); return 0; }
RUN(mul_naive_new) { UNUSED; *res = mzd_mul_naive(NULL, m[0], m[1]); return 0; }
RUN(mul_va) { UNUSED; _mzd_mul_va(m[0], m[1], m[2], s->p[0]); return 0; }
RUN(mul_m4rm) { UNUSED; mzd_mul_m4rm(m[0], m[1], m[2], s->p[0]); return 0; }
RUN(addmul_m4rm) { UNUSED; mzd_addmul_m4rm(m[0], m[1], m[2], s->p[0]); return 0; }
RUN(mul_m4rm_new) { UNUSED; *res = mzd_mul_m4rm(NULL, m[0], m[1], s->p[0]); return 0; }
RUN(mul) { UNUSED; mzd_mul(m[0], m[1], m[2], s->p[0]); return 0; }
RUN(addmul) { UNUSED; mzd_addmul(m[0], m[1], m[2], s->p[0]); return 0; }
RUN(mul_new) { UNUSED; *res = mzd_mul(NULL, m[0], m[1], s->p[0]); return 0; }
RUN(sqr) { UNUSED; mzd_mul(m[0], m[1], m[1], s->p[0]); return 0; }
RUN(addsqr) { UNUSED; mzd_addmul(m[0], m[1], m[1], s->p[0]); return 0; }
RUN(ech_naive) { UNUSED; return (uint64_t)mzd_echelonize_naive(m[0], s->p[0]); }
RUN(ech_m4ri) { UNUSED; return (uint64_t)mzd_echelonize_m4ri(m[0], s->p[0], s->p[1]); }
RUN(ech_pluq) { UNUSED; return (uint64_t)mzd_echelonize_pluq(m[0], s->p[0]); }
RUN(ech) { UNUSED; return (uint64_t)mzd_echelonize(m[0], s->p[0]); }
RUN(top_ech) { UNUSED; mzd_top_echelonize_m4ri(m[0], s->p[0]); return 0; }
RUN(ple) { UNUSED; mzp_t *P = mzp_init(m[0]->nrows), *Q = mzp_init(m[0]->ncols); uint64_t h = (uint64_t)mzd_ple(m[0], P, Q, s->p[0]); h = hperm(hperm(h, P), Q); mzp_free(P); mzp_free(Q); return h; }
RUN(pluq) { UNUSED; mzp_t *P = mzp_init(m[0]->nrows), *Q = mzp_init(m[0]->ncols); uint64_t h = (uint64_t)mzd_pluq(m[0], P, Q, s->p[0]); h = hperm(hperm(h, P), Q); mzp_free(P); mzp_free(Q); return h; }
RUN(ple_russian) { UNUSED; mzp_t *P = mzp_init(m[0]->nrows), *Q = mzp_init(m[0]->ncols); uint64_t h = (uint64_t)_mzd_ple_russian(m[0], P, Q, s->p[0]); h = hperm(hperm(h, P), Q); mzp_free(P); mzp_free(Q); return h; }
RUN(trsm_ul) { UNUSED; mzd_trsm_upper_left(m[0], m[1], s->p[0]); return 0; }
RUN(trsm_ll) { UNUSED; mzd_trsm_lower_left(m[0], m[1], s->p[0]); return 0; }
RUN(trsm_ur) { UNUSED; mzd_trsm_upper_right(m[0], m[1], s->p[0]); return 0; }
RUN(trsm_lr) { UNUSED; mzd_trsm_lower_right(m[0], m[1], s->p[0]); return 0; }
RUN(inv_m4ri) { UNUSED; mzd_inv_m4ri(m[0], m[1], s->p[0]); return 0; }
RUN(inv_m4ri_new) { UNUSED; *res = mzd_inv_m4ri(NULL, m[0], s->p[0]); return 0; }
RUN(invert_naive) { UNUSED; mzd_invert_naive(m[0], m[1], m[2]); return 0; }
RUN(invert_naive_new) { UNUSED; *res = mzd_invert_naive(NULL, m[0], m[1]); return 0; }
RUN(trtri) { UNUSED; mzd_trtri_upper(m[0]); return 0; }
RUN(trtri_russian) { UNUSED; mzd_trtri_upper_russian(m[0], s->p[0]); return 0; }
RUN(solve_left) { UNUSED; return (uint64_t)(mzd_solve_left(m[0], m[1], s->p[0], 1) + 1); }
RUN(pluq_solve_left) { UNUSED; mzp_t *P = mzp_init(m[0]->nrows), *Q = mzp_init(m[0]->ncols); rci_t r = mzd_pluq(m[0], P, Q, s->p[0]); uint64_t h = (uint64_t)(mzd_pluq_solve_left(m[0], r, P, Q, m[1], s->p[0], 1) + 1); h = h64(h, (uint64_t)r); mzp_free(P); mzp_free(Q); return h; }
RUN(kernel) { UNUSED; *res = mzd_kernel_left_pluq(m[0], s->p[0]); return *res ? 1 : 0; }
RUN(make_table) { UNUSED; rci_t L[256]; mzd_make_table(m[1], s->p[0], s->p[1], s->p[2], m[0], L); uint64_t h = 0; for (int i = 0; i < (1 << s->p[2]); i++) h = h64(h, (uint64_t)L[i]); return h; }

/* shapes: {{r0,c0},{r1,c1},{r2,c2}}, {p0..p3} */
#define SH(...) __VA_ARGS__
static const oshape sh_same2[] = {{{{5, 33}, {5, 33}}, {0}}, {{{4, 64}, {4, 64}}, {0}}, {{{6, 65}, {6, 65}}, {0}}, {{{3, 127}, {3, 127}}, {0}}, {{{70, 129}, {70, 129}}, {0}}, {{{2, 193}, {2, 193}}, {0}}, {{{3, 640}, {3, 640}}, {0}}};
static const oshape sh_same3[] = {{{{5, 33}, {5, 33}, {5, 33}}, {0}}, {{{4, 64}, {4, 64}, {4, 64}}, {0}}, {{{6, 65}, {6, 65}, {6, 65}}, {0}}, {{{3, 127}, {3, 127}, {3, 127}}, {0}}, {{{70, 129}, {70, 129}, {70, 129}}, {0}}, {{{2, 193}, {2, 193}, {2, 193}}, {0}}, {{{3, 641}, {3, 641}, {3, 641}}, {0}}};
static const oshape sh_one[] = {{{{5, 33}}, {0}}, {{{4, 64}}, {0}}, {{{6, 65}}, {0}}, {{{3, 127}}, {0}}, {{{70, 129}}, {0}}, {{{2, 193}}, {0}}, {{{65, 63}}, {0}}, {{{1, 1}}, {0}}};
static const oshape sh_tr[] = {{{{33, 5}, {5, 33}}, {0}}, {{{64, 4}, {4, 64}}, {0}}, {{{65, 6}, {6, 65}}, {0}}, {{{127, 3}, {3, 127}}, {0}}, {{{129, 70}, {70, 129}}, {0}}, {{{63, 63}, {63, 63}}, {0}}, {{{7, 7}, {7, 7}}, {0}}, {{{17, 30}, {30, 17}}, {0}}, {{{200, 65}, {65, 200}}, {0}}, {{{64, 64}, {64, 64}}, {0}}, {{{600, 70}, {70, 600}}, {0}}};
static const oshape sh_tr_new[] = {{{{5, 33}}, {0}}, {{{4, 64}}, {0}}, {{{6, 65}}, {0}}, {{{3, 127}}, {0}}, {{{70, 129}}, {0}}, {{{63, 63}}, {0}}, {{{7, 7}}, {0}}, {{{30, 17}}, {0}}};
/* submatrix: d0 = S dims, d1 = M dims, p = {startrow, startcol} */
static const oshape sh_sub[] = {{{{3, 33}, {5, 100}}, {1, 0}}, {{{3, 33}, {5, 100}}, {1, 64}}, {{{3, 33}, {5, 100}}, {2, 7}}, {{{4, 64}, {4, 200}}, {0, 64}}, {{{4, 64}, {4, 200}}, {0, 3}}, {{{2, 100}, {3, 200}}, {1, 65}}, {{{2, 100}, {3, 200}}, {0, 64}}, {{{2, 129}, {2, 129}}, {0, 0}}};
static const oshape sh_sub_new[] = {{{{5, 100}}, {1, 0, 3, 33}}, {{{5, 100}}, {1, 64, 3, 33}}, {{{5, 100}}, {2, 7, 3, 33}}, {{{4, 200}}, {0, 64, 4, 64}}, {{{3, 200}}, {1, 65, 2, 100}}};
static const oshape sh_concat[] = {{{{3, 66}, {3, 33}, {3, 33}}, {0}}, {{{3, 128}, {3, 64}, {3, 64}}, {0}}, {{{2, 100}, {2, 65}, {2, 35}}, {0}}, {{{2, 131}, {2, 1}, {2, 130}}, {0}}, {{{4, 97}, {4, 64}, {4, 33}}, {0}}};
static const oshape sh_concat_new[] = {{{{3, 33}, {3, 33}}, {0}}, {{{3, 64}, {3, 64}}, {0}}, {{{2, 65}, {2, 35}}, {0}}, {{{2, 1}, {2, 130}}, {0}}};
static const oshape sh_stack[] = {{{{7, 33}, {3, 33}, {4, 33}}, {0}}, {{{5, 64}, {2, 64}, {3, 64}}, {0}}, {{{66, 65}, {1, 65}, {65, 65}}, {0}}, {{{4, 130}, {2, 130}, {2, 130}}, {0}}};
static const oshape sh_stack_new[] = {{{{3, 33}, {4, 33}}, {0}}, {{{2, 64}, {3, 64}}, {0}}, {{{1, 65}, {65, 65}}, {0}}};
static const oshape sh_extract[] = {{{{5, 5}, {5, 33}}, {0}}, {{{33, 33}, {33, 33}}, {0}}, {{{64, 64}, {64, 70}}, {0}}, {{{65, 65}, {70, 65}}, {0}}, {{{100, 100}, {100, 129}}, {0}}, {{{3, 3}, {3, 200}}, {0}}};
static const oshape sh_extract_new[] = {{{{5, 33}}, {0}}, {{{33, 33}}, {0}}, {{{64, 70}}, {0}}, {{{70, 65}}, {0}}, {{{100, 129}}, {0}}};
static const oshape sh_copy_row[] = {{{{4, 33}, {3, 33}}, {1, 2}}, {{{4, 70}, {3, 33}}, {3, 0}}, {{{2, 64}, {2, 64}}, {0, 1}}, {{{3, 130}, {5, 65}}, {2, 4}}, {{{3, 129}, {3, 129}}, {1, 1}}};
static const oshape sh_rowswap[] = {{{{5, 33}}, {0, 4}}, {{{4, 64}}, {1, 2}}, {{{6, 65}}, {0, 5}}, {{{3, 127}}, {2, 0}}, {{{70, 129}}, {3, 69}}, {{{3, 193}}, {1, 1}}};
static const oshape sh_rowswap2[] = {{{{5, 33}}, {0, 4, 0}}, {{{6, 65}}, {0, 5, 1}}, {{{3, 193}}, {0, 2, 2}}, {{{3, 193}}, {0, 2, 3}}, {{{3, 200}}, {1, 2, 1}}};
static const oshape sh_colswap[] = {{{{5, 33}}, {0, 32}}, {{{4, 64}}, {63, 1}}, {{{6, 65}}, {64, 3}}, {{{6, 65}}, {0, 63}}, {{{3, 127}}, {126, 64}}, {{{70, 129}}, {128, 0}}, {{{3, 193}}, {192, 191}}, {{{9, 100}}, {70, 71}}};
static const oshape sh_colswap_rows[] = {{{{5, 33}}, {0, 32, 1, 4}}, {{{9, 65}}, {64, 3, 0, 9}}, {{{9, 65}}, {64, 63, 2, 7}}, {{{9, 129}}, {128, 0, 3, 3}}, {{{9, 129}}, {128, 127, 0, 5}}, {{{9, 100}}, {70, 71, 4, 9}}};
static const oshape sh_rowadd[] = {{{{5, 33}}, {0, 4}}, {{{4, 64}}, {1, 2}}, {{{6, 65}}, {5, 0}}, {{{3, 127}}, {2, 0}}, {{{70, 129}}, {3, 69}}, {{{3, 300}}, {1, 2}}, {{{3, 641}}, {0, 2}}};
static const oshape sh_rowaddoff[] = {{{{5, 33}}, {0, 4, 7}}, {{{4, 64}}, {1, 2, 63}}, {{{6, 65}}, {5, 0, 64}}, {{{6, 65}}, {5, 0, 0}}, {{{3, 127}}, {2, 0, 65}}, {{{3, 300}}, {1, 2, 70}}, {{{3, 641}}, {0, 2, 129}}, {{{3, 641}}, {0, 2, 1}}};
static const oshape sh_rowclear[] = {{{{5, 33}}, {0, 7}}, {{{4, 64}}, {1, 63}}, {{{6, 65}}, {5, 64}}, {{{6, 65}}, {5, 0}}, {{{3, 127}}, {2, 65}}, {{{3, 300}}, {1, 70}}, {{{3, 193}}, {0, 128}}};
static const oshape sh_bits[] = {{{{5, 33}}, {0, 3, 30}}, {{{5, 33}}, {4, 32, 1}}, {{{4, 64}}, {1, 0, 64}}, {{{6, 65}}, {5, 60, 5}}, {{{6, 65}}, {0, 1, 64}}, {{{3, 127}}, {2, 63, 64}}, {{{3, 127}}, {2, 100, 27}}, {{{3, 193}}, {1, 129, 64}}};
static const oshape sh_writebit[] = {{{{5, 33}}, {0, 32, 4, 0}}, {{{4, 64}}, {3, 63, 0, 0}}, {{{6, 65}}, {5, 64, 0, 63}}, {{{3, 193}}, {2, 192, 1, 128}}};
static const oshape sh_combine[] = {{{{3, 33}, {3, 33}, {3, 33}}, {0, 1, 2, 0}}, {{{3, 65}, {3, 65}, {3, 65}}, {0, 1, 2, 0}}, {{{3, 65}, {3, 65}, {3, 65}}, {0, 1, 2, 1}}, {{{3, 200}, {3, 200}, {3, 200}}, {2, 1, 0, 1}}, {{{3, 641}, {3, 641}, {3, 641}}, {0, 1, 2, 0}}, {{{3, 641}, {3, 641}, {3, 641}}, {0, 1, 2, 3}}, {{{3, 704}, {3, 704}, {3, 704}}, {0, 1, 2, 2}}};
static const oshape sh_combine2[] = {{{{3, 33}, {3, 33}}, {0, 0, 2, 0}}, {{{3, 65}, {3, 65}}, {1, 0, 2, 1}}, {{{3, 200}, {3, 200}}, {2, 0, 0, 1}}, {{{3, 641}, {3, 641}}, {0, 0, 2, 0}}, {{{3, 704}, {3, 704}}, {0, 0, 2, 3}}};
static const oshape sh_perm[] = {{{{5, 33}}, {0}}, {{{4, 64}}, {0}}, {{{6, 65}}, {0}}, {{{3, 127}}, {0}}, {{{70, 129}}, {0}}, {{{130, 70}}, {0}}, {{{9, 200}}, {0}}};
static const oshape sh_perm_capped[] = {{{{5, 33}}, {1}}, {{{6, 65}}, {3}}, {{{70, 129}}, {64}}, {{{9, 200}}, {0}}};
static const oshape sh_obs2[] = {{{{5, 33}, {5, 33}}, {0}}, {{{4, 64}, {4, 64}}, {0}}, {{{6, 65}, {6, 65}}, {0}}, {{{3, 127}, {3, 127}}, {0}}, {{{2, 1}, {2, 1}}, {0}}, {{{2, 193}, {2, 193}}, {0}}};
static const oshape sh_pivot[] = {{{{5, 33}}, {0, 0}}, {{{5, 33}}, {2, 20}}, {{{6, 65}}, {1, 64}}, {{{6, 65}}, {0, 3}}, {{{3, 127}}, {0, 100}}, {{{5, 200}}, {2, 70}}, {{{5, 200}}, {0, 129}}, {{{5, 128}}, {0, 1}}};
static const oshape sh_readbits[] = {{{{5, 33}}, {5}}, {{{4, 64}}, {64}}, {{{6, 65}}, {33}}, {{{3, 127}}, {64}}, {{{2, 193}}, {1}}};
/* products: d0 = C (m x n), d1 = A (m x l), d2 = B (l x n) */
static const oshape sh_mul[] = {{{{5, 7}, {5, 9}, {9, 7}}, {0}}, {{{20, 33}, {20, 17}, {17, 33}}, {0}}, {{{17, 64}, {17, 65}, {65, 64}}, {0}}, {{{33, 65}, {33, 64}, {64, 65}}, {0}}, {{{70, 100}, {70, 130}, {130, 100}}, {0}}, {{{16, 54}, {16, 60}, {60, 54}}, {0}}, {{{15, 127}, {15, 70}, {70, 127}}, {0}}, {{{64, 64}, {64, 64}, {64, 64}}, {0}}, {{{129, 129}, {129, 129}, {129, 129}}, {64}}, {{{200, 200}, {200, 200}, {200, 200}}, {64}}, {{{130, 200}, {130, 150}, {150, 200}}, {64}}};
static const oshape sh_mul_k[] = {{{{20, 33}, {20, 17}, {17, 33}}, {0}}, {{{17, 64}, {17, 65}, {65, 64}}, {2}}, {{{33, 65}, {33, 64}, {64, 65}}, {0}}, {{{70, 100}, {70, 130}, {130, 100}}, {5}}, {{{64, 64}, {64, 64}, {64, 64}}, {8}}, {{{129, 129}, {129, 129}, {129, 129}}, {0}}, {{{100, 193}, {100, 67}, {67, 193}}, {3}}};
static const oshape sh_mul_new[] = {{{{5, 9}, {9, 7}}, {0}}, {{{20, 17}, {17, 33}}, {0}}, {{{17, 65}, {65, 64}}, {0}}, {{{70, 130}, {130, 100}}, {0}}, {{{129, 129}, {129, 129}}, {64}}, {{{200, 200}, {200, 200}}, {64}}};
static const oshape sh_va[] = {{{{5, 33}, {5, 9}, {9, 33}}, {1}}, {{{17, 64}, {17, 65}, {65, 64}}, {0}}, {{{33, 65}, {33, 64}, {64, 65}}, {1}}, {{{3, 200}, {3, 70}, {70, 200}}, {0}}};
static const oshape sh_sqr[] = {{{{7, 7}, {7, 7}}, {0}}, {{{33, 33}, {33, 33}}, {0}}, {{{64, 64}, {64, 64}}, {0}}, {{{65, 65}, {65, 65}}, {0}}, {{{129, 129}, {129, 129}}, {64}}, {{{200, 200}, {200, 200}}, {64}}};
static const oshape sh_ech[] = {{{{5, 33}}, {0}}, {{{5, 33}}, {1}}, {{{40, 64}}, {0}}, {{{40, 64}}, {1}}, {{{30, 65}}, {0}}, {{{30, 65}}, {1}}, {{{70, 129}}, {0}}, {{{70, 129}}, {1}}, {{{129, 70}}, {1}}, {{{100, 200}}, {0}}, {{{100, 200}}, {1}}, {{{20, 300}}, {1}}, {{{20, 300}}, {0}}};
static const oshape sh_ech_k[] = {{{{5, 33}}, {0, 0}}, {{{5, 33}}, {1, 2}}, {{{40, 64}}, {0, 3}}, {{{40, 64}}, {1, 0}}, {{{30, 65}}, {0, 0}}, {{{30, 65}}, {1, 5}}, {{{70, 129}}, {0, 4}}, {{{70, 129}}, {1, 0}}, {{{129, 70}}, {1, 3}}, {{{100, 200}}, {0, 0}}, {{{100, 200}}, {1, 6}}, {{{20, 300}}, {1, 0}}, {{{20, 300}}, {0, 2}}};
static const oshape sh_topech[] = {{{{5, 33}}, {0}}, {{{40, 64}}, {3}}, {{{30, 65}}, {0}}, {{{70, 129}}, {4}}, {{{100, 200}}, {0}}};
static const oshape sh_ple[] = {{{{5, 33}}, {0}}, {{{40, 64}}, {0}}, {{{30, 65}}, {0}}, {{{70, 129}}, {0}}, {{{129, 70}}, {0}}, {{{100, 200}}, {64}}, {{{20, 300}}, {0}}};
static const oshape sh_ple_k[] = {{{{5, 33}}, {0}}, {{{40, 64}}, {2}}, {{{30, 65}}, {0}}, {{{70, 129}}, {4}}, {{{129, 70}}, {0}}, {{{100, 200}}, {9}}};
/* trsm left: d0 = T (n x n), d1 = B (n x w); right: d0 = T (n x n), d1 = B (w x n) */
static const oshape sh_trsm_l[] = {{{{5, 5}, {5, 33}}, {0}}, {{{33, 33}, {33, 64}}, {0}}, {{{64, 64}, {64, 65}}, {0}}, {{{65, 65}, {65, 5}}, {0}}, {{{100, 100}, {100, 129}}, {0}}, {{{129, 129}, {129, 70}}, {64}}, {{{200, 200}, {200, 63}}, {0}}};
static const oshape sh_trsm_r[] = {{{{5, 5}, {33, 5}}, {0}}, {{{33, 33}, {70, 33}}, {0}}, {{{64, 64}, {65, 64}}, {0}}, {{{65, 65}, {5, 65}}, {0}}, {{{100, 100}, {129, 100}}, {0}}, {{{129, 129}, {70, 129}}, {64}}, {{{200, 200}, {63, 200}}, {0}}};
static const oshape sh_inv[] = {{{{5, 5}, {5, 5}}, {0}}, {{{33, 33}, {33, 33}}, {0}}, {{{64, 64}, {64, 64}}, {3}}, {{{65, 65}, {65, 65}}, {0}}, {{{100, 100}, {100, 100}}, {0}}, {{{129, 129}, {129, 129}}, {5}}};
static const oshape sh_inv_new[] = {{{{5, 5}}, {0}}, {{{33, 33}}, {0}}, {{{64, 64}}, {3}}, {{{65, 65}}, {0}}, {{{129, 129}}, {5}}};
static const oshape sh_invn[] = {{{{5, 5}, {5, 5}, {5, 5}}, {0}}, {{{33, 33}, {33, 33}, {33, 33}}, {0}}, {{{64, 64}, {64, 64}, {64, 64}}, {0}}, {{{65, 65}, {65, 65}, {65, 65}}, {0}}, {{{100, 100}, {100, 100}, {100, 100}}, {0}}};
static const oshape sh_invn_new[] = {{{{5, 5}, {5, 5}}, {0}}, {{{33, 33}, {33, 33}}, {0}}, {{{64, 64}, {64, 64}}, {0}}, {{{65, 65}, {65, 65}}, {0}}, {{{100, 100}, {100, 100}}, {0}}};
static const oshape sh_trtri[] = {{{{5, 5}}, {0}}, {{{33, 33}}, {0}}, {{{64, 64}}, {3}}, {{{65, 65}}, {0}}, {{{100, 100}}, {2}}, {{{129, 129}}, {0}}, {{{200, 200}}, {4}}};
/* solve: d0 = A (m x n), d1 = B (max(m,n) x w) */
static const oshape sh_solve[] = {{{{5, 5}, {5, 3}}, {0}}, {{{33, 33}, {33, 65}}, {0}}, {{{20, 40}, {40, 7}}, {0}}, {{{40, 20}, {40, 64}}, {0}}, {{{64, 64}, {64, 64}}, {0}}, {{{65, 70}, {70, 33}}, {0}}, {{{129, 100}, {129, 65}}, {64}}};
static const oshape sh_kernel[] = {{{{5, 33}}, {0}}, {{{20, 64}}, {0}}, {{{30, 65}}, {0}}, {{{70, 129}}, {0}}, {{{129, 70}}, {0}}, {{{50, 200}}, {64}}};
/* make_table: d0 = T (2^k x ncols), d1 = M; p = {r, c, k} */
static const oshape sh_table[] = {{{{8, 33}, {10, 33}}, {2, 5, 3}}, {{{16, 65}, {10, 65}}, {0, 64, 4}}, {{{4, 129}, {5, 129}}, {3, 70, 2}}, {{{32, 200}, {9, 200}}, {1, 0, 5}}};

#define NSH(a) (int)(sizeof(a) / sizeof((a)[0])), a
static const vop OPS[] = {
  {"mzd_copy", 2, "oi", "gg", NSH(sh_same2), run_copy, 0},
  {"mzd_copy(NULL)", 1, "i", "g", NSH(sh_one), run_copy_new, 0},
  {"mzd_add", 3, "oii", "ggg", NSH(sh_same3), run_add, 0},
  {"_mzd_add", 3, "oii", "ggg", NSH(sh_same3), run__add, 0},
  {"mzd_add(NULL)", 2, "ii", "gg", NSH(sh_same2), run_add_new, 0},
  {"mzd_add(C==A)", 2, "xi", "gg", NSH(sh_same2), run_add_ca, 0},
  {"mzd_add(C==B)", 2, "xi", "gg", NSH(sh_same2), run_add_cb, 0},
  {"mzd_transpose", 2, "oi", "gg", NSH(sh_tr), run_transpose, 0},
  {"mzd_transpose(NULL)", 1, "i", "g", NSH(sh_tr_new), run_transpose_new, 0},
  {"mzd_submatrix", 2, "oi", "gg", NSH(sh_sub), run_submatrix, 0},
  {"mzd_submatrix(NULL)", 1, "i", "g", NSH(sh_sub_new), run_submatrix_new, 0},
  {"mzd_concat", 3, "oii", "ggg", NSH(sh_concat), run_concat, 0},
  {"mzd_concat(NULL)", 2, "ii", "gg", NSH(sh_concat_new), run_concat_new, 0},
  {"mzd_stack", 3, "oii", "ggg", NSH(sh_stack), run_stack, 0},
  {"mzd_stack(NULL)", 2, "ii", "gg", NSH(sh_stack_new), run_stack_new, 0},
  {"mzd_extract_u", 2, "oi", "gg", NSH(sh_extract), run_extract_u, 0},
  {"mzd_extract_l", 2, "oi", "gg", NSH(sh_extract), run_extract_l, 0},
  {"mzd_extract_u(NULL)", 1, "i", "g", NSH(sh_extract_new), run_extract_u_new, 0},
  {"mzd_extract_l(NULL)", 1, "i", "g", NSH(sh_extract_new), run_extract_l_new, 0},
  {"mzd_set_ui(0)", 1, "o", "g", NSH(sh_one), run_set_ui0, 0},
  {"mzd_set_ui(1)", 1, "o", "g", NSH(sh_one), run_set_ui1, 0},
  {"mzd_copy_row", 2, "xi", "gg", NSH(sh_copy_row), run_copy_row, 0},
  {"mzd_row_swap", 1, "x", "g", NSH(sh_rowswap), run_row_swap, 0},
  {"_mzd_row_swap", 1, "x", "g", NSH(sh_rowswap2), run__row_swap, 0},
  {"mzd_col_swap", 1, "x", "g", NSH(sh_colswap), run_col_swap, 0},
  {"mzd_col_swap_in_rows", 1, "x", "g", NSH(sh_colswap_rows), run_col_swap_in_rows, 0},
  {"mzd_row_add", 1, "x", "g", NSH(sh_rowadd), run_row_add, 0},
  {"mzd_row_add_offset", 1, "x", "g", NSH(sh_rowaddoff), run_row_add_offset, 0},
  {"mzd_row_clear_offset", 1, "x", "g", NSH(sh_rowclear), run_row_clear_offset, 0},
  {"mzd_xor_bits", 1, "x", "g", NSH(sh_bits), run_xor_bits, 0},
  {"mzd_clear_bits", 1, "x", "g", NSH(sh_bits), run_clear_bits, 0},
  {"mzd_write_bit", 1, "x", "g", NSH(sh_writebit), run_write_bit, 0},
  {"mzd_combine", 3, "xii", "ggg", NSH(sh_combine), run_combine, 0},
  {"mzd_combine(in place)", 2, "xi", "gg", NSH(sh_combine2), run_combine_inplace, 0},
  {"mzd_apply_p_left", 1, "x", "g", NSH(sh_perm), run_p_left, 0},
  {"mzd_apply_p_left_trans", 1, "x", "g", NSH(sh_perm), run_p_left_trans, 0},
  {"mzd_apply_p_right", 1, "x", "g", NSH(sh_perm), run_p_right, 0},
  {"mzd_apply_p_right_trans", 1, "x", "g", NSH(sh_perm), run_p_right_trans, 0},
  {"mzd_apply_p_right_trans_tri", 1, "x", "g", NSH(sh_perm), run_p_right_trans_tri, 0},
  {"mzd_apply_p_right_trans_even_capped", 1, "x", "g", NSH(sh_perm_capped), run_p_right_trans_capped, 0},
  {"mzd_equal", 2, "ii", "gg", NSH(sh_obs2), run_equal, 0},
  {"mzd_cmp", 2, "ii", "gg", NSH(sh_obs2), run_cmp, 0},
  {"mzd_is_zero", 1, "i", "g", NSH(sh_one), run_is_zero, 0},
  {"mzd_first_zero_row", 1, "i", "g", NSH(sh_one), run_first_zero_row, 0},
  {"mzd_find_pivot", 1, "i", "g", NSH(sh_pivot), run_find_pivot, 0},
  {"mzd_read_bits", 1, "i", "g", NSH(sh_readbits), run_read_bits, 0},
  {"mzd_hash", 1, "i", "g", NSH(sh_one), run_hash, 1},
  {"mzd_density", 1, "i", "g", NSH(sh_one), run_density, 0},
  {"mzd_mul_naive", 3, "oii", "ggg", NSH(sh_mul), run_mul_naive, 0},
  {"mzd_addmul_naive", 3, "xii", "ggg", NSH(sh_mul), run_addmul_naive, 0},
  {"mzd_mul_naive(NULL)", 2, "ii", "gg", NSH(sh_mul_new), run_mul_naive_new, 0},
  {"_mzd_mul_va", 3, "xii", "ggg", NSH(sh_va), run_mul_va, 0},
  {"mzd_mul_m4rm", 3, "oii", "ggg", NSH(sh_mul_k), run_mul_m4rm, 0},
  {"mzd_addmul_m4rm", 3, "xii", "ggg", NSH(sh_mul_k), run_addmul_m4rm, 0},
  {"mzd_mul_m4rm(NULL)", 2, "ii", "gg", NSH(sh_mul_new), run_mul_m4rm_new, 0},
  {"mzd_mul", 3, "oii", "ggg", NSH(sh_mul), run_mul, 0},
  {"mzd_addmul", 3, "xii", "ggg", NSH(sh_mul), run_addmul, 0},
  {"mzd_mul(NULL)", 2, "ii", "gg", NSH(sh_mul_new), run_mul_new, 0},
  {"mzd_mul(C,A,A)", 2, "oi", "gg", NSH(sh_sqr), run_sqr, 0},
  {"mzd_addmul(C,A,A)", 2, "xi", "gg", NSH(sh_sqr), run_addsqr, 0},
  {"mzd_echelonize_naive", 1, "x", "g", NSH(sh_ech), run_ech_naive, 0},
  {"mzd_echelonize_m4ri", 1, "x", "g", NSH(sh_ech_k), run_ech_m4ri, 0},
  {"mzd_echelonize_pluq", 1, "x", "g", NSH(sh_ech), run_ech_pluq, 0},
  {"mzd_echelonize", 1, "x", "g", NSH(sh_ech), run_ech, 0},
  {"mzd_top_echelonize_m4ri", 1, "x", "R", NSH(sh_topech), run_top_ech, 0},
  {"mzd_ple", 1, "x", "g", NSH(sh_ple), run_ple, 0},
  {"mzd_pluq", 1, "x", "g", NSH(sh_ple), run_pluq, 0},
  {"_mzd_ple_russian", 1, "x", "g", NSH(sh_ple_k), run_ple_russian, 1},
  {"mzd_trsm_upper_left", 2, "ix", "Ug", NSH(sh_trsm_l), run_trsm_ul, 0},
  {"mzd_trsm_lower_left", 2, "ix", "Lg", NSH(sh_trsm_l), run_trsm_ll, 0},
  {"mzd_trsm_upper_right", 2, "ix", "Ug", NSH(sh_trsm_r), run_trsm_ur, 0},
  {"mzd_trsm_lower_right", 2, "ix", "Lg", NSH(sh_trsm_r), run_trsm_lr, 0},
  {"mzd_inv_m4ri", 2, "oi", "gI", NSH(sh_inv), run_inv_m4ri, 0},
  {"mzd_inv_m4ri(NULL)", 1, "i", "I", NSH(sh_inv_new), run_inv_m4ri_new, 0},
  {"mzd_invert_naive", 3, "oii", "gIE", NSH(sh_invn), run_invert_naive, 0},
  {"mzd_invert_naive(NULL)", 2, "ii", "IE", NSH(sh_invn_new), run_invert_naive_new, 0},
  {"mzd_trtri_upper", 1, "x", "U", NSH(sh_trtri), run_trtri, 0},
  {"mzd_trtri_upper_russian", 1, "x", "U", NSH(sh_trtri), run_trtri_russian, 0},
  {"mzd_solve_left", 2, "xx", "gg", NSH(sh_solve), run_solve_left, 0},
  {"mzd_pluq+mzd_pluq_solve_left", 2, "xx", "gg", NSH(sh_solve), run_pluq_solve_left, 0},
  {"mzd_kernel_left_pluq", 1, "x", "g", NSH(sh_kernel), run_kernel, 0},
  {"mzd_make_table", 2, "xi", "gg", NSH(sh_table), run_make_table, 1},
};
#define NOPS (int)(sizeof(OPS) / sizeof(OPS[0]))

/* operand content for (op, shape, operand, data index) */
static pm *op_content(const vop *o, const oshape *s, int k, int data) {
  int r = s->d[k][0], c = s->d[k][1];
  switch (o->kind[k]) {
  case 'U': return pm_unit_upper(r, 40 + data, data);
  case 'L': return pm_unit_lower(r, 50 + data, data);
  case 'I': return pm_dense_invertible(r, 60 + data);
  case 'E': return pm_identity(r);
  case 'R': { pm *A = pm_pat(r, c, (pat){P_PR, 0, 70 + data}); if (data) for (int j = 0; j < c; j++) if ((j % 5) == 1) for (int i = 0; i < r; i++) pm_set(A, i, j, 0); pm_echelon(A, 0, NULL); return A; }
  default:
    if (o->role[k] == 'o') return pm_pat(r, c, data ? (pat){P_PR, 0, 80 + k} : (pat){P_O, 0, 0});
    /* generic inputs: dense PR; second data set is rank deficient / sparse so that pivot gaps occur */
    if (!data) return pm_pat(r, c, (pat){P_PR, 0, 90 + k});
    { pm *A = pm_pat(r, c, (pat){P_PR, 1, 95 + k}); for (int i = 0; i < r; i += 3) for (int j = 0; j < c; j++) pm_set(A, i, j, pm_get(A, (i + 1) % r, j)); return A; }
  }
}
#endif
