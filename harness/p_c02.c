/* C02: echelon forms - rank, row space, unique RREF, identical across algorithms. */
#include "rankgen.h"
const char *prop_id = "C02";

enum { E_NAIVE, E_GAUSS, E_M4RI, E_PLUQ, E_HYB, E_HYBT, E_N };
static const char *ename[] = {"mzd_echelonize_naive", "mzd_gauss_delayed", "mzd_echelonize_m4ri", "mzd_echelonize_pluq", "mzd_echelonize", "_mzd_echelonize_m4ri(heuristic)"};
static const double THR[] = {0.0, 0.05, 0.25, 0.5, 1.0, 2.0, 0.1, 0.2};

typedef struct { pm *A, *R; int rank; uint64_t dig; } ctx;

static void check_one(int e, int full, int k, int thr, const ctx *x, const char *desc) {
  char sig[96]; snprintf(sig, sizeof sig, "%s|full=%d", ename[e], full);
  mzd_t *M = mzd_from_pm(x->A);
  rci_t r = -1;
  switch (e) {
  case E_NAIVE: r = mzd_echelonize_naive(M, full); break;
  case E_GAUSS: r = mzd_gauss_delayed(M, 0, full); break;
  case E_M4RI: r = mzd_echelonize_m4ri(M, full, k); break;
  case E_PLUQ: r = mzd_echelonize_pluq(M, full); break;
  case E_HYB: r = mzd_echelonize(M, full); break;
  case E_HYBT: r = _mzd_echelonize_m4ri(M, full, k, 1, THR[thr]); break;
  }
  VX_CHECK(r == x->rank, sig, "rank", "%s: returned %d, reference rank %d", desc, r, x->rank);
  pm *G = pm_from_mzd(M);
  if (full) {
    if (!pm_eq(G, x->R)) vx_fail(sig, "rref", "%s: result is not the reduced row echelon form of the input", desc);
  } else {
    if (!pm_is_row_echelon(G)) vx_fail(sig, "echelon-shape", "%s: result is not a row echelon form (strictly increasing pivot columns, zero rows last)", desc);
    else {
      pm *GR = pm_rref(G);
      if (!pm_eq(GR, x->R)) vx_fail(sig, "row-space", "%s: result spans a different row space than the input", desc);
      pm_free(GR);
      /* completing with the top-reduction routine gives the RREF */
      if (r == x->rank) {
        int kt = (e == E_M4RI || e == E_HYBT) ? k : 0;
        mzd_top_echelonize_m4ri(M, kt);
        if (!mzd_eq_pm(M, x->R)) { char s2[128]; snprintf(s2, sizeof s2, "mzd_top_echelonize_m4ri|after=%s", ename[e]); vx_fail(s2, "rref", "%s: top reduction (k=%d) of the row echelon form does not give the RREF", desc, kt); }
      }
    }
  }
  int pd = mzd_padding_dirty(M);
  if (pd >= 0) vx_fail(sig, "padding", "%s: non-zero bits beyond the last column in row %d", desc, pd);
  pm_free(G);
  mzd_free(M);
}

static int g_fam;
static void on_spec(const rk_spec *s, void *u) {
  if (s->fam == F_RECW && s->c > 9000) return; /* M4RI on a 1 x 500000 matrix builds a table per column block: minutes per case, not a property question (C03 runs the very wide members) */
  (void)u;
  char desc[160]; rk_str(s, desc, sizeof desc);
  vx_group();
  ctx x; memset(&x, 0, sizeof x); int ready = 0;
  int tiny = (s->fam == F_TINY);
  static const int KQ[] = {0, 3, 8}, KTINY[] = {0, 1, 2, 3};
  int ks[11], nk = 0;
  if (tiny) { for (int i = 0; i < 4; i++) ks[nk++] = KTINY[i]; }
  else if (vx_tier) { for (int i = 0; i <= 10; i++) ks[nk++] = i; }
  else { for (int i = 0; i < 3; i++) ks[nk++] = KQ[i]; }
  for (int e = 0; e < E_N; e++) for (int full = 0; full < 2; full++) {
    int hyb = (s->fam == F_HYB);
    int np = (e == E_M4RI) ? nk : (e == E_HYBT) ? (hyb ? 24 : 6) : 1;
    if (e == E_GAUSS && tiny && !vx_tier) continue; /* identical code path to naive */
    if (e == E_HYBT && !vx_tier && !hyb) np = 3;
    for (int pi = 0; pi < np; pi++) {
      int k = (e == E_M4RI) ? ks[pi] : (e == E_HYBT ? (hyb ? (pi % 3 == 0 ? 0 : pi % 3 == 1 ? 3 : 6) : (pi % 2 ? 3 : 0)) : 0);
      int thr = (e == E_HYBT) ? (hyb ? pi / 3 : (!vx_tier ? pi * 2 : pi)) : 0; /* HYB inputs: every threshold x k in {0,3,6}: the block size decides at which column the density is sampled */
      if (!vx_case_begin("%s|full=%d|k=%d|thr=%g|%s", ename[e], full, k, e == E_HYBT ? THR[thr] : -1.0, desc)) continue;
      if (!ready) { x.A = rk_build(s); x.R = pm_rref(x.A); x.rank = pm_rank(x.A); x.dig = pm_hash(x.A); ready = 1; }
      check_one(e, full, k, thr, &x, desc);
      vx_input(x.dig * 1315423911ULL + (uint64_t)(e * 64 + full * 32 + k) * 2654435761ULL + (uint64_t)thr, x.rank > 0);
      vx_case_end();
    }
  }
  if (ready) { pm_free(x.A); pm_free(x.R); }
}

/* threshold shapes of the configuration built (min-cache: PLE recursion, big tables) */
static void big(void) {
  int dims[][2] = {{410, 1280}, {513, 513}, {700, 300}, {300, 700}, {1025, 130}, {130, 1025}, {1300, 1300}};
  int nd = vx_tier ? 7 : 4;
  for (int i = 0; i < nd; i++) for (int rk = 0; rk < 3; rk++) {
    rk_spec s; memset(&s, 0, sizeof s); s.fam = F_RK; s.r = dims[i][0]; s.c = dims[i][1];
    int mn = s.r < s.c ? s.r : s.c; s.aux = rk == 0 ? mn : rk == 1 ? mn / 2 + 3 : 65;
    on_spec(&s, NULL);
  }
}

void prop_enumerate(void) {
  const char *mode = vx_arg("mode", "tiny");
  if (!strcmp(mode, "tiny")) rk_enumerate(1 << F_TINY, vx_tier ? 18 : 14, 0, on_spec, NULL);
  else if (!strcmp(mode, "lift")) rk_enumerate(1 << F_LIFT, 0, vx_tier ? 11 : 8, on_spec, NULL);
  else if (!strcmp(mode, "struct")) rk_enumerate((1 << F_ECH) | (1 << F_RK) | (1 << F_BND) | (1 << F_HYB), 0, 0, on_spec, NULL);
  else if (!strcmp(mode, "big")) big();
  else if (!strcmp(mode, "rec")) rk_enumerate((1 << F_REC) | (1 << F_RECW), 0, 0, on_spec, NULL); /* rank profiles that drive the block-recursive PLE behind the PLUQ-based routes */
  (void)g_fam;
}
int main(int argc, char **argv) { return vx_main(argc, argv); }
