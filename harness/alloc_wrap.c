/* Allocator and m4ri_die interposition through -Wl,--wrap (no source hook).
 * All heap traffic of m4ri goes through posix_memalign (via _mm_malloc), malloc, calloc, realloc, free. */
#define _GNU_SOURCE
#include <stdarg.h>
#include <stdio.h>
#include <stdlib.h>
#include <string.h>
#include <errno.h>
#include <stdint.h>

extern void *__real_malloc(size_t);
extern void *__real_calloc(size_t, size_t);
extern void *__real_realloc(void *, size_t);
extern void __real_free(void *);
extern int __real_posix_memalign(void **, size_t, size_t);
extern void __real_m4ri_die(const char *, ...);
void vx_note_die(const char *msg);
void vx_note_die_fc(const char *msg);

long aw_live = 0, aw_count = 0, aw_fail_at = 0, aw_fill_at = 0, aw_failed_site = 0;
int aw_tracking = 0, aw_fill_mode = 0, aw_die_entered = 0;
char aw_die_msg[256];
/* optional log of request sizes (for recycled-block experiments) */
size_t aw_sizes[4096]; long aw_nsizes = 0;
/* ring of the most recent pointers passed to free() / returned by allocation while tracking (for model conformance in FSX) */
void *aw_freed[64]; long aw_nfreed = 0; void *aw_alloced[64]; long aw_nalloced = 0;

void aw_reset(void) { aw_live = 0; aw_count = 0; aw_fail_at = 0; aw_fill_at = 0; aw_fill_mode = 0; aw_die_entered = 0; aw_failed_site = 0; aw_nsizes = 0; }

static void fill(void *p, size_t n, long idx) {
  if (!aw_fill_mode || !p) return;
  if (aw_fill_at != -1 && aw_fill_at != idx) return;
  if (aw_fill_mode == 1) memset(p, 0xFF, n);
  else { unsigned char *b = p; for (size_t i = 0; i < n; i++) b[i] = (unsigned char)(0xA5 ^ (i * 37) ^ (i >> 8)); }
}
static int should_fail(void *site) {
  if (!aw_tracking) return 0;
  aw_count++;
  if (aw_fail_at && aw_count == aw_fail_at) { aw_failed_site = (long)(intptr_t)site; return 1; }
  return 0;
}
void *__wrap_malloc(size_t n) {
  if (should_fail(__builtin_return_address(0))) { errno = ENOMEM; return NULL; }
  void *p = __real_malloc(n);
  if (aw_tracking && p) { aw_live++; aw_alloced[aw_nalloced++ & 63] = p; if (aw_nsizes < 4096) aw_sizes[aw_nsizes++] = n; fill(p, n, aw_count); }
  return p;
}
void *__wrap_calloc(size_t a, size_t b) {
  if (should_fail(__builtin_return_address(0))) { errno = ENOMEM; return NULL; }
  void *p = __real_calloc(a, b);
  if (aw_tracking && p) { aw_live++; if (aw_nsizes < 4096) aw_sizes[aw_nsizes++] = a * b; }
  return p;
}
void *__wrap_realloc(void *q, size_t n) {
  if (should_fail(__builtin_return_address(0))) { errno = ENOMEM; return NULL; }
  void *p = __real_realloc(q, n);
  if (aw_tracking && p && !q) aw_live++;
  return p;
}
int __wrap_posix_memalign(void **out, size_t al, size_t n) {
  if (should_fail(__builtin_return_address(0))) return ENOMEM;
  int e = __real_posix_memalign(out, al, n);
  if (aw_tracking && !e && *out) { aw_live++; aw_alloced[aw_nalloced++ & 63] = *out; if (aw_nsizes < 4096) aw_sizes[aw_nsizes++] = n; fill(*out, n, aw_count); }
  return e;
}
void __wrap_free(void *p) {
  if (aw_tracking && p) { aw_live--; aw_freed[aw_nfreed++ & 63] = p; }
  __real_free(p);
}
void __wrap_m4ri_die(const char *fmt, ...) {
  char msg[256];
  va_list ap; va_start(ap, fmt); vsnprintf(msg, sizeof msg, fmt, ap); va_end(ap);
  for (char *c = msg; *c; c++) if (*c == '\n') *c = ' ';
  aw_die_entered = 1; snprintf(aw_die_msg, sizeof aw_die_msg, "%s", msg);
  vx_note_die(msg); vx_note_die_fc(msg);
  __real_m4ri_die("%s\n", msg);
  abort();
}
