/* C08: addition and data movement are exact: add, transpose, copy, set_ui, submatrix, concat, stack, extract_u/l. */
#include "vx.h"
const char *prop_id = "C08";

static int D[400], nD;
static void dims_init(int wide) {
  nD = 0;
  for (int i = 1; i <= 130; i++) D[nD++] = i;
  if (wide) for (int w = 3; w <= 10; w++) { D[nD++] = 64 * w - 1; D[nD++] = 64 * w; D[nD++] = 64 * w + 1; }
}
static mzd_t *ones_like(int r, int c) { pm *o = pm_pat(r, c, (pat){P_O, 0, 0}); mzd_t *M = mzd_from_pm(o); pm_free(o); return M; }
static void expect(const char *sig, const char *clause, const mzd_t *R, const pm *E, const char *desc) {
  if (!R) { vx_fail(sig, clause, "%s: NULL returned", desc); return; }
  if (R->nrows != E->r || R->ncols != E->c) { vx_fail(sig, clause, "%s: result is %dx%d, expected %dx%d", desc, R->nrows, R->ncols, E->r, E->c); return; }
  pm *G = pm_from_mzd(R);
  if (!pm_eq(G, E)) { int nd = 0, fi = -1, fj = -1; for (int i = 0; i < E->r; i++) for (int j = 0; j < E->c; j++) if (pm_get(G, i, j) != pm_get(E, i, j)) { if (fi < 0) { fi = i; fj = j; } nd++; }
    vx_fail(sig, clause, "%s: %d entries differ from the specified result, first at (%d,%d)", desc, nd, fi, fj); }
  pm_free(G);
  int pd = mzd_padding_dirty(R);
  if (pd >= 0) vx_fail(sig, "padding", "%s: non-zero bits beyond the last column in row %d", desc, pd);
}
static void unchanged(const char *sig, const mzd_t *M, const pm *E, const char *what, const char *desc) {
  if (!mzd_eq_pm(M, E) || mzd_padding_dirty(M) >= 0) vx_fail(sig, "source-unchanged", "%s: source %s was modified", desc, what);
}

/* ---------- addition ---------- */
static void add_case(int fn, int alias, int r, int c, pat pa, pat pb) {
  char b1[40], b2[40]; static const char *an[] = {"C=NULL", "C=new", "C==A", "C==B", "A==B", "C==A==B"};
  const char *sig = fn ? "_mzd_add" : "mzd_add";
  if (!vx_case_begin("%s|%s|%dx%d|A=%s|B=%s", sig, an[alias], r, c, pat_str(pa, b1), pat_str(pb, b2))) return;
  char desc[160]; snprintf(desc, sizeof desc, "%s %dx%d A=%s B=%s", an[alias], r, c, b1, b2);
  pm *A = pm_pat(r, c, pa), *B = (alias >= 4) ? pm_copy(A) : pm_pat(r, c, pb), *E = pm_add(A, B);
  mzd_t *Az = mzd_from_pm(A), *Bz = (alias >= 4) ? Az : mzd_from_pm(B), *Cz = NULL, *R;
  switch (alias) { case 0: Cz = NULL; break; case 1: case 4: Cz = ones_like(r, c); break; case 2: case 5: Cz = Az; break; case 3: Cz = Bz; break; }
  if (alias == 0 && fn) { Cz = mzd_init(r, c); }
  R = fn ? _mzd_add(Cz, Az, Bz) : mzd_add(Cz, Az, Bz);
  expect(sig, "sum", R, E, desc);
  if (Cz && R != Cz) vx_fail(sig, "return-value", "%s: different matrix returned", desc);
  if (alias != 2 && alias != 5) unchanged(sig, Az, A, "A", desc);
  if (alias != 3 && alias < 4) unchanged(sig, Bz, B, "B", desc);
  vx_input(pm_hash(A) * 31 + pm_hash(B) * 17 + (uint64_t)(fn * 8 + alias), !pm_is_zero(A) || !pm_is_zero(B));
  if (R && R != Az && R != Bz) mzd_free(R);
  if (Bz != Az) mzd_free(Bz);
  mzd_free(Az);
  pm_free(A); pm_free(B); pm_free(E);
  vx_case_end();
}
static void mode_add(void) {
  dims_init(1);
  static const int RS[] = {1, 2, 3};
  for (int ri = 0; ri < 3; ri++) for (int di = 0; di < nD; di++) {
    int r = RS[ri], c = D[di], nb = lbl_bits(r, c);
    if (!vx_tier && ri == 1 && c > 130) continue;
    for (int fn = 0; fn < 2; fn++) for (int alias = 0; alias < 6; alias++) {
      if (fn && alias == 0 && !vx_tier) continue;
      add_case(fn, alias, r, c, (pat){P_PR, 0, 1}, (pat){P_PR, 0, 2});
      add_case(fn, alias, r, c, (pat){P_O, 0, 0}, (pat){P_O, 0, 0});
      add_case(fn, alias, r, c, (pat){P_O, 0, 0}, (pat){P_PR, 1, 3});
      if (alias < 4 && (vx_tier || fn == 0 || alias == 1)) for (int b = 0; b < nb; b++) {
        add_case(fn, alias, r, c, (pat){P_LBL, b, 0}, (pat){P_Z, 0, 0});
        add_case(fn, alias, r, c, (pat){P_Z, 0, 0}, (pat){P_NLBL, b, 0});
      }
    }
  }
}

/* ---------- transpose ---------- */
static void tr_case(int r, int c, pat p, int supplied, int twice) {
  char b1[40];
  if (!vx_case_begin("mzd_transpose|%s|%dx%d|%s%s", supplied ? "DST=supplied" : "DST=NULL", r, c, pat_str(p, b1), twice ? "|twice" : "")) return;
  char desc[120]; snprintf(desc, sizeof desc, "%dx%d %s", r, c, b1);
  pm *A = pm_pat(r, c, p), *E = pm_transpose(A);
  mzd_t *Az = mzd_from_pm(A), *Dz = supplied ? ones_like(c, r) : NULL;
  mzd_t *R = mzd_transpose(Dz, Az);
  expect("mzd_transpose", "transpose", R, E, desc);
  if (Dz && R != Dz) vx_fail("mzd_transpose", "return-value", "%s: different matrix returned", desc);
  unchanged("mzd_transpose", Az, A, "A", desc);
  if (twice && R) { mzd_t *T2 = mzd_transpose(NULL, R); expect("mzd_transpose", "transpose-twice", T2, A, desc); mzd_free(T2); }
  vx_input(pm_hash(A) + (uint64_t)supplied, !pm_is_zero(A));
  if (R) mzd_free(R);
  mzd_free(Az); pm_free(A); pm_free(E);
  vx_case_end();
}
static void mode_transpose(void) {
  /* every shape in D130 x D130 with every label plane (complete routing table) */
  int step = vx_tier ? 1 : 1;
  for (int r = 1; r <= 130; r += step) for (int c = 1; c <= 130; c++) {
    int nb = lbl_bits(r, c);
    for (int b = 0; b < nb; b++) { tr_case(r, c, (pat){P_LBL, b, 0}, b & 1, 0); tr_case(r, c, (pat){P_NLBL, b, 0}, !(b & 1), 0); }
    tr_case(r, c, (pat){P_PR, 0, 4}, 0, 1);
  }
}
/* thorough: every single-entry source for every shape in 1..130 x 1..130 (7.25e7 cases) */
static void mode_transpose_units(void) {
  for (int r = 1; r <= 130; r++) for (int c = 1; c <= 130; c++) {
    vx_group();
    for (int i = 0; i < r; i++) for (int j = 0; j < c; j++) {
      if (!vx_case_begin("mzd_transpose|unit|%dx%d|U(%d,%d)", r, c, i, j)) continue;
      mzd_t *Az = mzd_init(r, c); ((uint64_t *)Az->data)[(size_t)i * Az->rowstride + (j >> 6)] = 1ULL << (j & 63);
      mzd_t *R = mzd_transpose(NULL, Az);
      /* expected: exactly one entry, at (j,i) */
      int ok = 1; const uint64_t *d = (const uint64_t *)R->data;
      for (int x = 0; x < R->nrows && ok; x++) for (int w = 0; w < R->rowstride; w++) { uint64_t e = (x == j && w == (i >> 6)) ? (1ULL << (i & 63)) : 0; if (d[(size_t)x * R->rowstride + w] != e) { ok = 0; break; } }
      if (!ok) vx_fail("mzd_transpose", "transpose", "%dx%d: source entry (%d,%d) is not routed to exactly (%d,%d)", r, c, i, j, j, i);
      vx_input(((uint64_t)r << 48) ^ ((uint64_t)c << 32) ^ ((uint64_t)i << 16) ^ (uint64_t)j, 1);
      mzd_free(R); mzd_free(Az);
      vx_case_end();
    }
  }
}
/* transposition with view sources and view destinations (plain views, same-word extension, view of a view) */
typedef struct { int rowoff, wordoff, trailw, trailr, nest; } tplc;
static const tplc TP[] = {{1, 0, 1, 1, 0}, {0, 1, -1, 0, 0}, {1, 0, -1, 1, 1}, {0, 1, 1, 1, 1}};
static void trv_case(int r, int c, pat p, int pl, int dstview, int fill) {
  char b1[40];
  if (!vx_case_begin("mzd_transpose|%s|%dx%d|%s|place=%d|fill=%d", dstview ? "DST=view" : "SRC=view", r, c, pat_str(p, b1), pl, fill)) return;
  char desc[160], msg[256]; snprintf(desc, sizeof desc, "%s %dx%d %s placement (%d,%d,%d,%d,nest=%d)", dstview ? "DST=view" : "SRC=view", r, c, b1, TP[pl].rowoff, TP[pl].wordoff, TP[pl].trailw, TP[pl].trailr, TP[pl].nest);
  pm *A = pm_pat(r, c, p), *E = pm_transpose(A);
  if (!dstview) {
    vw_nest = TP[pl].nest; vwin w = vw_make(A, 1, TP[pl].rowoff, TP[pl].wordoff, TP[pl].trailw, TP[pl].trailr, fill); vw_nest = 0; vw_snapshot(&w);
    mzd_t *R = mzd_transpose(NULL, w.view);
    expect("mzd_transpose|SRC=view", "transpose", R, E, desc);
    if (!vw_all_unchanged(&w, msg, sizeof msg)) vx_fail("mzd_transpose|SRC=view", "source-unchanged", "%s: %s", desc, msg);
    if (R) mzd_free(R); vw_free(&w);
  } else {
    pm *O = pm_pat(c, r, (pat){P_O, 0, 0}); mzd_t *Az = mzd_from_pm(A);
    vw_nest = TP[pl].nest; vwin w = vw_make(O, 1, TP[pl].rowoff, TP[pl].wordoff, TP[pl].trailw, TP[pl].trailr, fill); vw_nest = 0; vw_snapshot(&w);
    mzd_t *R = mzd_transpose(w.view, Az);
    if (R != w.view) vx_fail("mzd_transpose|DST=view", "return-value", "%s: different matrix returned", desc);
    if (!mzd_eq_pm(w.view, E)) vx_fail("mzd_transpose|DST=view", "transpose", "%s: the view does not hold the transpose", desc);
    if (vw_outside_changed(&w, msg, sizeof msg)) vx_fail("mzd_transpose|DST=view", "nothing-else", "%s: %s", desc, msg);
    unchanged("mzd_transpose|DST=view", Az, A, "A", desc);
    mzd_free(Az); vw_free(&w); pm_free(O);
  }
  vx_input(pm_hash(A) * 8 + (uint64_t)(pl * 2 + dstview) + ((uint64_t)fill << 60), !pm_is_zero(A));
  pm_free(A); pm_free(E);
  vx_case_end();
}
static void mode_transpose_views(void) {
  for (int r = 1; r <= 130; r++) for (int c = 1; c <= 130; c++) {
    if (!vx_tier && r > 70 && c > 70 && ((r + c) % 3)) continue;
    for (int pl = 0; pl < 4; pl++) for (int dv = 0; dv < 2; dv++) {
      trv_case(r, c, (pat){P_PR, 0, 4}, pl, dv, 1 + ((r + c + pl) & 1));
      trv_case(r, c, (pat){P_O, 0, 0}, pl, dv, 0);
      if (vx_tier) { int nb = lbl_bits(r, c); for (int b = 0; b < nb; b += 3) trv_case(r, c, (pat){P_LBL, b, 0}, pl, dv, 2); }
    }
  }
  static const int BG[] = {191, 193, 257, 513, 577, 1025};
  for (int i = 0; i < 6; i++) for (int j = 0; j < 6; j++) for (int pl = 0; pl < 4; pl++) for (int dv = 0; dv < 2; dv++) { if (!vx_tier && (i + j + pl) % 2) continue; trv_case(BG[i], BG[j], (pat){P_PR, 0, 4}, pl, dv, 1); trv_case(BG[i], 7 + i, (pat){P_PR, 0, 4}, pl, dv, 2); trv_case(5 + j, BG[i], (pat){P_PR, 0, 4}, pl, dv, 2); }
}
static void mode_transpose_big(void) {
  static const int BQ[] = {64, 65, 127, 128, 129, 191, 192, 193, 511, 512, 513, 576, 767, 768, 769, 1025}, BT[] = {64, 65, 66, 127, 128, 129, 130, 191, 192, 193, 255, 256, 257, 511, 512, 513, 576, 640, 767, 768, 769, 1024, 1025, 1300};
  const int *B = vx_tier ? BT : BQ; int nbig = vx_tier ? 24 : 16;
  static const int S[] = {1, 7, 63, 64, 65, 200};
  for (int i = 0; i < nbig; i++) {
    for (int j = 0; j < nbig; j++) { if (!vx_tier && (i + j) % 3) continue; int r = B[i], c = B[j], nb = lbl_bits(r, c);
      tr_case(r, c, (pat){P_PR, 0, 4}, (i + j) & 1, 1);
      for (int b = 0; b < nb; b += (vx_tier ? 1 : 4)) { tr_case(r, c, (pat){P_LBL, b, 0}, b & 1, 0); if (vx_tier) tr_case(r, c, (pat){P_NLBL, b, 0}, !(b & 1), 0); } }
    for (int j = 0; j < 6; j++) { int nb = lbl_bits(B[i], S[j]);
      for (int b = 0; b < nb; b += (vx_tier ? 1 : 3)) { tr_case(B[i], S[j], (pat){P_LBL, b, 0}, b & 1, 0); tr_case(S[j], B[i], (pat){P_NLBL, b, 0}, b & 1, 0); }
      tr_case(B[i], S[j], (pat){P_PR, 0, 4}, 1, 1); tr_case(S[j], B[i], (pat){P_PR, 0, 4}, 0, 1); }
  }
}

/* ---------- copy, copy_row, set_ui ---------- */
static void mode_copy(void) {
  dims_init(1);
  static const int RS[] = {1, 3, 66};
  for (int ri = 0; ri < 3; ri++) for (int di = 0; di < nD; di++) {
    int r = RS[ri], c = D[di]; int nb = lbl_bits(r, c);
    for (int sup = 0; sup < 2; sup++) for (int pi = 0; pi < 3 + (ri < 2 ? nb : 0); pi++) {
      pat p = pi == 0 ? (pat){P_PR, 0, 1} : pi == 1 ? (pat){P_O, 0, 0} : pi == 2 ? (pat){P_Z, 0, 0} : (pat){P_LBL, pi - 3, 0};
      char b1[40];
      if (!vx_case_begin("mzd_copy|%s|%dx%d|%s", sup ? "DST=supplied" : "DST=NULL", r, c, pat_str(p, b1))) continue;
      char desc[100]; snprintf(desc, sizeof desc, "%dx%d %s", r, c, b1);
      pm *A = pm_pat(r, c, p); mzd_t *Az = mzd_from_pm(A), *Dz = sup ? ones_like(r, c) : NULL;
      mzd_t *R = mzd_copy(Dz, Az);
      expect("mzd_copy", "copy", R, A, desc); unchanged("mzd_copy", Az, A, "A", desc);
      vx_input(pm_hash(A) + (uint64_t)sup, !pm_is_zero(A));
      if (R) mzd_free(R);
      mzd_free(Az); pm_free(A);
      vx_case_end();
    }
    /* self copy (returns the argument unchanged) and copy into a LARGER destination (only the top-left r x c block is replaced) */
    for (int big = 0; big < 5; big++) {
      static const int ER[] = {0, 0, 1, 2, 1}, EC[] = {0, 1, 0, 64, 70};
      if (!vx_case_begin("mzd_copy|%s|%dx%d|+%d,+%d", big ? "DST=larger" : "DST=self", r, c, ER[big], EC[big])) continue;
      char desc[100]; snprintf(desc, sizeof desc, "%dx%d into %dx%d", r, c, r + ER[big], c + EC[big]);
      pm *A = pm_pat(r, c, (pat){P_PR, 0, 1}); mzd_t *Az = mzd_from_pm(A);
      if (!big) { mzd_t *R = mzd_copy(Az, Az); if (R != Az) vx_fail("mzd_copy", "return-value", "%s: self copy returned another matrix", desc); expect("mzd_copy", "copy", Az, A, desc); }
      else { pm *Dp = pm_pat(r + ER[big], c + EC[big], (pat){P_PR, 0, 5}), *E = pm_copy(Dp); for (int i = 0; i < r; i++) for (int j = 0; j < c; j++) pm_set(E, i, j, pm_get(A, i, j));
        mzd_t *Dz = mzd_from_pm(Dp), *R = mzd_copy(Dz, Az); if (R != Dz) vx_fail("mzd_copy", "return-value", "%s: different matrix returned", desc);
        expect("mzd_copy", "copy-into-larger", Dz, E, desc); unchanged("mzd_copy", Az, A, "A", desc); mzd_free(Dz); pm_free(Dp); pm_free(E); }
      vx_input(pm_hash(A) + (uint64_t)big * 77, 1);
      mzd_free(Az); pm_free(A);
      vx_case_end();
    }
    /* copy_row: row j of A into row i of B; B at least as wide as A; everything else of B untouched */
    static const int EXTRA[] = {0, 1, 64, 70};
    for (int ei = 0; ei < 4; ei++) for (int pi = 0; pi < 2; pi++) {
      int cb = c + EXTRA[ei];
      if (!vx_case_begin("mzd_copy_row|A=%dx%d|B=%dx%d|pat=%d", r, c, r + 1, cb, pi)) continue;
      char desc[100]; snprintf(desc, sizeof desc, "A %dx%d -> B %dx%d", r, c, r + 1, cb);
      pm *A = pm_pat(r, c, pi ? (pat){P_O, 0, 0} : (pat){P_PR, 0, 1}), *B = pm_pat(r + 1, cb, pi ? (pat){P_Z, 0, 0} : (pat){P_PR, 0, 2});
      int j = r - 1, i = r / 2;
      pm *E = pm_copy(B); for (int x = 0; x < c; x++) pm_set(E, i, x, pm_get(A, j, x));
      mzd_t *Az = mzd_from_pm(A), *Bz = mzd_from_pm(B);
      mzd_copy_row(Bz, i, Az, j);
      expect("mzd_copy_row", "copy-row", Bz, E, desc); unchanged("mzd_copy_row", Az, A, "A", desc);
      vx_input(pm_hash(A) * 3 + pm_hash(B), 1);
      mzd_free(Az); mzd_free(Bz); pm_free(A); pm_free(B); pm_free(E);
      vx_case_end();
    }
  }
  static const int RS2[] = {1, 5, 64, 70, 130};
  for (int ri = 0; ri < 5; ri++) for (int c = 1; c <= 130; c++) for (unsigned v = 0; v < 4; v++) for (int pre = 0; pre < 2; pre++) {
    int r = RS2[ri];
    if (!vx_case_begin("mzd_set_ui|value=%u|%dx%d|prefill=%s", v, r, c, pre ? "PR" : "ones")) continue;
    char desc[100]; snprintf(desc, sizeof desc, "%dx%d value %u", r, c, v);
    pm *A = pm_pat(r, c, pre ? (pat){P_PR, 0, 1} : (pat){P_O, 0, 0}); mzd_t *Az = mzd_from_pm(A);
    pm *E = pm_new(r, c); if (v & 1) for (int i = 0; i < r && i < c; i++) pm_set(E, i, i, 1);
    mzd_set_ui(Az, v);
    expect("mzd_set_ui", "assignment", Az, E, desc);
    vx_input((uint64_t)r * 1000003 + (uint64_t)c * 7 + v + (uint64_t)pre * 11, 1);
    mzd_free(Az); pm_free(A); pm_free(E);
    vx_case_end();
  }
}

/* ---------- submatrix: every (startcol, ncols) inside a 200-column source ---------- */
static void mode_submatrix(void) {
  int NC = 200, NR = 7;
  pm *M = NULL; mzd_t *Mz = NULL;
  for (int sc = 0; sc < NC; sc++) for (int n = 1; sc + n <= NC; n++) {
    vx_group();
    for (int rr = 0; rr < 2; rr++) for (int sup = 0; sup < 2; sup++) {
      int r0 = rr ? 2 : 0, r1 = rr ? 5 : NR;
      if (!vx_case_begin("mzd_submatrix|%s|rows=%d..%d|startcol=%d|ncols=%d", sup ? "S=supplied" : "S=NULL", r0, r1, sc, n)) continue;
      char desc[100]; snprintf(desc, sizeof desc, "rows %d..%d cols %d..%d of %dx%d", r0, r1, sc, sc + n, NR, NC);
      M = pm_pat(NR, NC, (pat){P_PR, 0, 1}); Mz = mzd_from_pm(M);
      pm *E = pm_sub(M, r0, sc, r1, sc + n);
      mzd_t *Sz = sup ? ones_like(r1 - r0, n) : NULL;
      mzd_t *R = mzd_submatrix(Sz, Mz, r0, sc, r1, sc + n);
      expect("mzd_submatrix", "extraction", R, E, desc); unchanged("mzd_submatrix", Mz, M, "M", desc);
      vx_input((uint64_t)sc * 100003 + (uint64_t)n * 13 + (uint64_t)(rr * 2 + sup), 1);
      if (R) mzd_free(R);
      mzd_free(Mz); pm_free(M); pm_free(E);
      vx_case_end();
    }
  }
  /* wide sources: aligned path with several words, start words 0..2 */
  static const int SCS[] = {0, 64, 128, 1, 63, 65, 127}; static const int NS[] = {1, 63, 64, 65, 127, 128, 129, 192, 193, 300};
  for (int a = 0; a < 7; a++) for (int b = 0; b < 10; b++) for (int sup = 0; sup < 2; sup++) for (int pi = 0; pi < 2; pi++) {
    int sc = SCS[a], n = NS[b], NC2 = sc + n + (pi ? 0 : 37);
    if (!vx_case_begin("mzd_submatrix|%s|wide|startcol=%d|ncols=%d|src=%d|pat=%d", sup ? "S=supplied" : "S=NULL", sc, n, NC2, pi)) continue;
    char desc[100]; snprintf(desc, sizeof desc, "cols %d..%d of 3x%d", sc, sc + n, NC2);
    pm *Mw = pm_pat(3, NC2, pi ? (pat){P_O, 0, 0} : (pat){P_PR, 0, 1}); mzd_t *Mwz = mzd_from_pm(Mw);
    pm *E = pm_sub(Mw, 0, sc, 3, sc + n); mzd_t *Sz = sup ? ones_like(3, n) : NULL;
    mzd_t *R = mzd_submatrix(Sz, Mwz, 0, sc, 3, sc + n);
    expect("mzd_submatrix", "extraction", R, E, desc); unchanged("mzd_submatrix", Mwz, Mw, "M", desc);
    vx_input((uint64_t)sc * 1003 + (uint64_t)n * 131 + (uint64_t)sup + 77777, 1);
    if (R) mzd_free(R);
    mzd_free(Mwz); pm_free(Mw); pm_free(E);
    vx_case_end();
  }
}

/* ---------- concat / stack / extract ---------- */
static void mode_concat(void) {
  static const int RS[] = {1, 3};
  for (int ca = 1; ca <= 130; ca++) for (int cb = 1; cb <= 130; cb++) {
    for (int ri = 0; ri < 2; ri++) for (int sup = 0; sup < 2; sup++) {
      int r = RS[ri];
      if (!vx_case_begin("mzd_concat|%s|rows=%d|ncolsA=%d|ncolsB=%d", sup ? "C=supplied" : "C=NULL", r, ca, cb)) continue;
      char desc[100]; snprintf(desc, sizeof desc, "%dx%d | %dx%d", r, ca, r, cb);
      pm *A = pm_pat(r, ca, (pat){P_PR, 0, 1}), *B = pm_pat(r, cb, (pat){P_PR, 0, 2}), *E = pm_concat(A, B);
      mzd_t *Az = mzd_from_pm(A), *Bz = mzd_from_pm(B), *Cz = sup ? ones_like(r, ca + cb) : NULL;
      mzd_t *R = mzd_concat(Cz, Az, Bz);
      expect("mzd_concat", "concatenation", R, E, desc); unchanged("mzd_concat", Az, A, "A", desc); unchanged("mzd_concat", Bz, B, "B", desc);
      vx_input(pm_hash(E) + (uint64_t)sup, 1);
      if (R) mzd_free(R);
      mzd_free(Az); mzd_free(Bz); pm_free(A); pm_free(B); pm_free(E);
      vx_case_end();
    }
  }
  static const int RR[] = {1, 2, 63, 64, 65};
  for (int a = 0; a < 5; a++) for (int b = 0; b < 5; b++) for (int c = 1; c <= 130; c++) for (int sup = 0; sup < 2; sup++) {
    int ra = RR[a], rb = RR[b];
    if (!vx_case_begin("mzd_stack|%s|rowsA=%d|rowsB=%d|ncols=%d", sup ? "C=supplied" : "C=NULL", ra, rb, c)) continue;
    char desc[100]; snprintf(desc, sizeof desc, "%dx%d over %dx%d", ra, c, rb, c);
    pm *A = pm_pat(ra, c, (pat){P_PR, 0, 1}), *B = pm_pat(rb, c, (pat){P_PR, 0, 2}), *E = pm_stack(A, B);
    mzd_t *Az = mzd_from_pm(A), *Bz = mzd_from_pm(B), *Cz = sup ? ones_like(ra + rb, c) : NULL;
    mzd_t *R = mzd_stack(Cz, Az, Bz);
    expect("mzd_stack", "stacking", R, E, desc); unchanged("mzd_stack", Az, A, "A", desc); unchanged("mzd_stack", Bz, B, "B", desc);
    vx_input(pm_hash(E) + (uint64_t)sup, 1);
    if (R) mzd_free(R);
    mzd_free(Az); mzd_free(Bz); pm_free(A); pm_free(B); pm_free(E);
    vx_case_end();
  }
  /* extract_u / extract_l: n in D130 (square), non-square shapes, and a few larger */
  int shapes[600][2], ns = 0;
  for (int n = 1; n <= 130; n++) { shapes[ns][0] = n; shapes[ns++][1] = n; }
  static const int NSQ[][2] = {{3, 70}, {70, 3}, {64, 130}, {130, 64}, {65, 129}, {129, 65}, {1, 100}, {100, 1}, {192, 192}, {193, 200}, {257, 257}};
  for (int i = 0; i < 11; i++) { shapes[ns][0] = NSQ[i][0]; shapes[ns++][1] = NSQ[i][1]; }
  for (int si = 0; si < ns; si++) for (int ul = 0; ul < 2; ul++) for (int sup = 0; sup < 2; sup++) for (int pi = 0; pi < 2; pi++) {
    int r = shapes[si][0], c = shapes[si][1], k = r < c ? r : c;
    const char *sig = ul ? "mzd_extract_l" : "mzd_extract_u";
    if (!vx_case_begin("%s|%s|%dx%d|pat=%d", sig, sup ? "dst=supplied" : "dst=NULL", r, c, pi)) continue;
    char desc[100]; snprintf(desc, sizeof desc, "%dx%d pat %d", r, c, pi);
    pm *A = pm_pat(r, c, pi ? (pat){P_O, 0, 0} : (pat){P_PR, 0, 1}); pm *E = pm_new(k, k);
    for (int i = 0; i < k; i++) for (int j = 0; j < k; j++) if (ul ? (j <= i) : (j >= i)) pm_set(E, i, j, pm_get(A, i, j));
    mzd_t *Az = mzd_from_pm(A), *Dz = sup ? ones_like(k, k) : NULL;
    mzd_t *R = ul ? mzd_extract_l(Dz, Az) : mzd_extract_u(Dz, Az);
    expect(sig, "triangle", R, E, desc); unchanged(sig, Az, A, "A", desc);
    vx_input(pm_hash(A) + (uint64_t)(ul * 2 + sup), 1);
    if (R) mzd_free(R);
    mzd_free(Az); pm_free(A); pm_free(E);
    vx_case_end();
  }
}

void prop_enumerate(void) {
  const char *mode = vx_arg("mode", "add");
  if (!strcmp(mode, "add")) mode_add();
  else if (!strcmp(mode, "transpose")) mode_transpose();
  else if (!strcmp(mode, "transpose_big")) mode_transpose_big();
  else if (!strcmp(mode, "transpose_units")) mode_transpose_units();
  else if (!strcmp(mode, "transpose_views")) mode_transpose_views();
  else if (!strcmp(mode, "copy")) mode_copy();
  else if (!strcmp(mode, "submatrix")) mode_submatrix();
  else if (!strcmp(mode, "concat")) mode_concat();
}
int main(int argc, char **argv) { return vx_main(argc, argv); }
