#define _GNU_SOURCE
#include "vx.h"
int vx_case_active(void);
#ifdef VX_COV
#include <stdio.h>
#include <stdlib.h>
#include <unistd.h>
extern int __llvm_profile_write_file(void);
extern void __llvm_profile_set_filename(const char *);
/* the profile file name is fixed at process start: forked workers must pick their own */
static void cov_dump(void) { static char b[400]; const char *d = getenv("VX_COV_DIR"); snprintf(b, sizeof b, "%s/w%d.profraw", d ? d : "/tmp", (int)getpid()); __llvm_profile_set_filename(b); __llvm_profile_write_file(); }
#define COV_DUMP() cov_dump()
#else
#define COV_DUMP() ((void)0)
#endif
#include <stdarg.h>
#include <unistd.h>
#include <signal.h>
#include <errno.h>
#include <fcntl.h>
#include <time.h>
#include <sys/mman.h>
#include <sys/wait.h>
#include <sys/time.h>

extern void *__real_malloc(size_t);
extern void *__real_calloc(size_t, size_t);
extern void __real_free(void *);
#define hmalloc(n) __real_malloc(n)
#define hcalloc(a, b) __real_calloc(a, b)
#define hfree(p) __real_free(p)

void *vx_malloc(size_t n) { return __real_malloc(n ? n : 1); }
void vx_free(void *p) { __real_free(p); }

static void hdie(const char *fmt, ...) {
  va_list ap; va_start(ap, fmt);
  fprintf(stderr, "HARNESS-ERROR: "); vfprintf(stderr, fmt, ap); fprintf(stderr, "\n");
  va_end(ap);
  _exit(2);
}

/* =============================== reference model =============================== */
pm *pm_new(int r, int c) {
  pm *m = hmalloc(sizeof(pm));
  m->r = r; m->c = c; m->w = (c + 63) / 64; if (m->w == 0) m->w = 1;
  m->d = hcalloc((size_t)(r ? r : 1) * m->w, 8);
  if (!m->d) { /* inside a case an absurd size means the LIBRARY handed back a matrix with corrupted dimensions: that is a finding of the case (abort = attributed crash), not a harness problem */
    if (vx_case_active()) { fprintf(stderr, "reference model asked for a %d x %d matrix: dimensions of a library matrix are corrupted\n", r, c); abort(); }
    hdie("out of memory in reference model"); }
  return m;
}
void pm_free(pm *m) { if (m) { hfree(m->d); hfree(m); } }
pm *pm_copy(const pm *a) { pm *m = pm_new(a->r, a->c); memcpy(m->d, a->d, (size_t)a->r * a->w * 8); return m; }
int pm_eq(const pm *a, const pm *b) {
  if (a->r != b->r || a->c != b->c) return 0;
  return memcmp(a->d, b->d, (size_t)a->r * a->w * 8) == 0;
}
int pm_is_zero(const pm *a) {
  for (size_t i = 0; i < (size_t)a->r * a->w; i++) if (a->d[i]) return 0;
  return 1;
}
pm *pm_mul(const pm *a, const pm *b) {
  if (a->c != b->r) hdie("pm_mul dims");
  pm *c = pm_new(a->r, b->c);
  for (int i = 0; i < a->r; i++) {
    uint64_t *ci = c->d + (size_t)i * c->w;
    for (int k = 0; k < a->c; k++)
      if (pm_get(a, i, k)) {
        const uint64_t *bk = b->d + (size_t)k * b->w;
        for (int x = 0; x < c->w; x++) ci[x] ^= bk[x];
      }
  }
  return c;
}
pm *pm_add(const pm *a, const pm *b) {
  if (a->r != b->r || a->c != b->c) hdie("pm_add dims");
  pm *c = pm_copy(a);
  for (size_t i = 0; i < (size_t)a->r * a->w; i++) c->d[i] ^= b->d[i];
  return c;
}
pm *pm_transpose(const pm *a) {
  pm *t = pm_new(a->c, a->r);
  for (int i = 0; i < a->r; i++)
    for (int j = 0; j < a->c; j++)
      if (pm_get(a, i, j)) pm_set(t, j, i, 1);
  return t;
}
pm *pm_identity(int n) { pm *m = pm_new(n, n); for (int i = 0; i < n; i++) pm_set(m, i, i, 1); return m; }
pm *pm_sub(const pm *a, int r0, int c0, int r1, int c1) {
  pm *s = pm_new(r1 - r0, c1 - c0);
  for (int i = r0; i < r1; i++) for (int j = c0; j < c1; j++) if (pm_get(a, i, j)) pm_set(s, i - r0, j - c0, 1);
  return s;
}
pm *pm_concat(const pm *a, const pm *b) {
  pm *s = pm_new(a->r, a->c + b->c);
  for (int i = 0; i < a->r; i++) {
    for (int j = 0; j < a->c; j++) if (pm_get(a, i, j)) pm_set(s, i, j, 1);
    for (int j = 0; j < b->c; j++) if (pm_get(b, i, j)) pm_set(s, i, a->c + j, 1);
  }
  return s;
}
pm *pm_stack(const pm *a, const pm *b) {
  pm *s = pm_new(a->r + b->r, a->c);
  memcpy(s->d, a->d, (size_t)a->r * a->w * 8);
  memcpy(s->d + (size_t)a->r * a->w, b->d, (size_t)b->r * b->w * 8);
  return s;
}
void pm_swap_rows(pm *a, int i, int j) {
  if (i == j) return;
  for (int x = 0; x < a->w; x++) { uint64_t t = a->d[(size_t)i * a->w + x]; a->d[(size_t)i * a->w + x] = a->d[(size_t)j * a->w + x]; a->d[(size_t)j * a->w + x] = t; }
}
void pm_swap_cols_rows(pm *a, int i, int j, int r0, int r1) {
  if (i == j) return;
  for (int r = r0; r < r1; r++) { int x = pm_get(a, r, i), y = pm_get(a, r, j); pm_set(a, r, i, y); pm_set(a, r, j, x); }
}
void pm_swap_cols(pm *a, int i, int j) { pm_swap_cols_rows(a, i, j, 0, a->r); }
void pm_row_add(pm *a, int dst, int src) { for (int x = 0; x < a->w; x++) a->d[(size_t)dst * a->w + x] ^= a->d[(size_t)src * a->w + x]; }
int pm_echelon(pm *a, int full, int *piv) {
  int rk = 0;
  for (int j = 0; j < a->c && rk < a->r; j++) {
    int p = -1;
    for (int i = rk; i < a->r; i++) if (pm_get(a, i, j)) { p = i; break; }
    if (p < 0) continue;
    pm_swap_rows(a, rk, p);
    for (int i = full ? 0 : rk + 1; i < a->r; i++) if (i != rk && pm_get(a, i, j)) pm_row_add(a, i, rk);
    if (piv) piv[rk] = j;
    rk++;
  }
  return rk;
}
int pm_rank(const pm *a) { pm *t = pm_copy(a); int r = pm_echelon(t, 0, NULL); pm_free(t); return r; }
pm *pm_rref(const pm *a) { pm *t = pm_copy(a); pm_echelon(t, 1, NULL); return t; }
pm *pm_inverse(const pm *a) {
  if (a->r != a->c) return NULL;
  int n = a->r; pm *I = pm_identity(n); pm *aug = pm_concat(a, I); pm_free(I);
  int *piv = hmalloc(sizeof(int) * (n + 1));
  int rk = pm_echelon(aug, 1, piv);
  int ok = (rk == n);
  for (int i = 0; ok && i < n; i++) if (piv[i] != i) ok = 0;
  hfree(piv);
  pm *inv = ok ? pm_sub(aug, 0, n, n, 2 * n) : NULL;
  pm_free(aug);
  return inv;
}
int pm_solvable(const pm *a, const pm *b) {
  if (a->r != b->r) hdie("pm_solvable dims");
  pm *aug = pm_concat(a, b);
  int r1 = pm_rank(a), r2 = pm_rank(aug);
  pm_free(aug);
  return r1 == r2;
}
uint64_t pm_hash(const pm *a) {
  uint64_t h = 0xcbf29ce484222325ULL ^ ((uint64_t)a->r << 32) ^ (uint64_t)a->c;
  for (size_t i = 0; i < (size_t)a->r * a->w; i++) { h ^= a->d[i]; h *= 0x100000001b3ULL; h ^= h >> 29; }
  return h ? h : 1;
}
void pm_print(FILE *f, const pm *a) {
  for (int i = 0; i < a->r; i++) { for (int j = 0; j < a->c; j++) fputc('0' + pm_get(a, i, j), f); fputc('\n', f); }
}
int pm_is_row_echelon(const pm *a) {
  int last = -1, seen_zero = 0;
  for (int i = 0; i < a->r; i++) {
    int lead = -1;
    for (int j = 0; j < a->c; j++) if (pm_get(a, i, j)) { lead = j; break; }
    if (lead < 0) { seen_zero = 1; continue; }
    if (seen_zero) return 0;
    if (lead <= last) return 0;
    last = lead;
  }
  return 1;
}

/* ---- byte-per-entry reference, written against the definitions, used to validate the packed one ---- */
typedef struct { int r, c; uint8_t *a; } bm;
static bm *bm_new(int r, int c) { bm *m = hmalloc(sizeof(bm)); m->r = r; m->c = c; m->a = hcalloc((size_t)r * c + 1, 1); return m; }
static void bm_free(bm *m) { hfree(m->a); hfree(m); }
#define BM(m, i, j) ((m)->a[(size_t)(i) * (m)->c + (j)])
static bm *bm_from_pm(const pm *p) { bm *m = bm_new(p->r, p->c); for (int i = 0; i < p->r; i++) for (int j = 0; j < p->c; j++) BM(m, i, j) = pm_get(p, i, j); return m; }
static int bm_eq_pm(const bm *m, const pm *p) {
  if (m->r != p->r || m->c != p->c) return 0;
  for (int i = 0; i < p->r; i++) for (int j = 0; j < p->c; j++) if (BM(m, i, j) != pm_get(p, i, j)) return 0;
  return 1;
}
static bm *bm_mul(const bm *a, const bm *b) {
  bm *c = bm_new(a->r, b->c);
  for (int i = 0; i < a->r; i++) for (int j = 0; j < b->c; j++) { int s = 0; for (int k = 0; k < a->c; k++) s ^= BM(a, i, k) & BM(b, k, j); BM(c, i, j) = s; }
  return c;
}
static int bm_rref(bm *a) { /* textbook Gauss-Jordan */
  int rk = 0;
  for (int j = 0; j < a->c && rk < a->r; j++) {
    int p = -1;
    for (int i = rk; i < a->r; i++) if (BM(a, i, j)) { p = i; break; }
    if (p < 0) continue;
    for (int x = 0; x < a->c; x++) { uint8_t t = BM(a, rk, x); BM(a, rk, x) = BM(a, p, x); BM(a, p, x) = t; }
    for (int i = 0; i < a->r; i++) if (i != rk && BM(a, i, j)) for (int x = 0; x < a->c; x++) BM(a, i, x) ^= BM(a, rk, x);
    rk++;
  }
  return rk;
}
int vx_selfcheck(void) {
  int n = 0;
  /* all pairs of matrices with r*k<=6, k*c<=6 for mul; all matrices <= 12 entries for rref/rank/transpose */
  for (int r = 1; r <= 6; r++) for (int k = 1; r * k <= 6; k++) for (int c = 1; k * c <= 6; c++)
    for (unsigned x = 0; x < (1u << (r * k)); x++) for (unsigned y = 0; y < (1u << (k * c)); y++) {
      pm *A = pm_new(r, k), *B = pm_new(k, c);
      for (int i = 0; i < r * k; i++) pm_set(A, i / k, i % k, (x >> i) & 1);
      for (int i = 0; i < k * c; i++) pm_set(B, i / c, i % c, (y >> i) & 1);
      pm *C = pm_mul(A, B); bm *a = bm_from_pm(A), *b = bm_from_pm(B), *c2 = bm_mul(a, b);
      if (!bm_eq_pm(c2, C)) hdie("selfcheck: pm_mul disagrees with byte reference");
      pm_free(A); pm_free(B); pm_free(C); bm_free(a); bm_free(b); bm_free(c2); n++;
    }
  for (int r = 1; r <= 12; r++) for (int c = 1; r * c <= 12; c++) for (unsigned x = 0; x < (1u << (r * c)); x++) {
    pm *A = pm_new(r, c);
    for (int i = 0; i < r * c; i++) pm_set(A, i / c, i % c, (x >> i) & 1);
    pm *R = pm_rref(A); bm *a = bm_from_pm(A); int rk = bm_rref(a);
    if (!bm_eq_pm(a, R) || rk != pm_rank(A)) hdie("selfcheck: pm_rref/pm_rank disagree with byte reference");
    pm *T = pm_transpose(A);
    for (int i = 0; i < r; i++) for (int j = 0; j < c; j++) if (pm_get(T, j, i) != pm_get(A, i, j)) hdie("selfcheck: transpose");
    pm_free(T); pm_free(R); bm_free(a); pm_free(A); n++;
  }
  /* wide shapes crossing word boundaries: fixed patterns, packed vs byte */
  int dims[] = {63, 64, 65, 130};
  for (int a = 0; a < 4; a++) for (int b = 0; b < 4; b++) {
    pm *A = pm_pat(dims[a], dims[b], (pat){P_PR, 0, 1}), *B = pm_pat(dims[b], dims[(a + b) % 4], (pat){P_PR, 0, 2});
    pm *C = pm_mul(A, B); bm *x = bm_from_pm(A), *y = bm_from_pm(B), *z = bm_mul(x, y);
    if (!bm_eq_pm(z, C)) hdie("selfcheck: wide pm_mul");
    pm *R = pm_rref(A); int rk = bm_rref(x);
    if (!bm_eq_pm(x, R) || rk != pm_rank(A)) hdie("selfcheck: wide rref");
    pm_free(A); pm_free(B); pm_free(C); pm_free(R); bm_free(x); bm_free(y); bm_free(z); n++;
  }
  return n;
}

/* ---- mzd <-> pm ---- */
pm *pm_from_mzd(const mzd_t *A) {
  pm *m = pm_new(A->nrows, A->ncols);
  for (int i = 0; i < A->nrows; i++) {
    const uint64_t *row = (const uint64_t *)A->data + (size_t)i * A->rowstride;
    for (int x = 0; x < (A->ncols + 63) / 64; x++) {
      uint64_t v = row[x];
      if (x == (A->ncols + 63) / 64 - 1 && (A->ncols & 63)) v &= (~0ULL) >> (64 - (A->ncols & 63));
      m->d[(size_t)i * m->w + x] = v;
    }
  }
  return m;
}
void mzd_write_pm(mzd_t *A, const pm *a) {
  if (A->nrows != a->r || A->ncols != a->c) hdie("mzd_write_pm dims %dx%d vs %dx%d", A->nrows, A->ncols, a->r, a->c);
  for (int i = 0; i < a->r; i++) {
    uint64_t *row = (uint64_t *)A->data + (size_t)i * A->rowstride;
    int W = (a->c + 63) / 64;
    for (int x = 0; x < W; x++) {
      uint64_t v = a->d[(size_t)i * a->w + x];
      if (x == W - 1 && (a->c & 63)) { uint64_t mk = (~0ULL) >> (64 - (a->c & 63)); row[x] = (row[x] & ~mk) | (v & mk); }
      else row[x] = v;
    }
  }
}
mzd_t *mzd_from_pm(const pm *a) { mzd_t *A = mzd_init(a->r, a->c); if (a->r && a->c) mzd_write_pm(A, a); return A; }
int mzd_eq_pm(const mzd_t *A, const pm *a) {
  if (A->nrows != a->r || A->ncols != a->c) return 0;
  pm *t = pm_from_mzd(A); int e = pm_eq(t, a); pm_free(t); return e;
}
int mzd_padding_dirty(const mzd_t *A) {
  if (!(A->ncols & 63) || A->nrows == 0 || A->ncols == 0) return -1;
  uint64_t mk = ~((~0ULL) >> (64 - (A->ncols & 63)));
  int W = (A->ncols + 63) / 64;
  for (int i = 0; i < A->nrows; i++) if (((const uint64_t *)A->data)[(size_t)i * A->rowstride + W - 1] & mk) return i;
  return -1;
}

/* =============================== patterns =============================== */
uint64_t vx_seed = 0;
uint64_t vx_rand(uint64_t *s) { uint64_t x = *s; x ^= x >> 12; x ^= x << 25; x ^= x >> 27; *s = x; return x * 0x2545F4914F6CDD1DULL; }
static uint64_t mix(uint64_t a, uint64_t b) { a ^= b + 0x9e3779b97f4a7c15ULL + (a << 6) + (a >> 2); a *= 0xff51afd7ed558ccdULL; a ^= a >> 33; return a; }
static uint64_t dens_word(uint64_t *s, int d) {
  if (d == 0) return vx_rand(s);
  uint64_t v = vx_rand(s) & vx_rand(s) & vx_rand(s) & vx_rand(s);
  return d == 1 ? v : ~v;
}
static void pm_mask(pm *m) {
  if (m->c & 63) { uint64_t mk = (~0ULL) >> (64 - (m->c & 63)); for (int i = 0; i < m->r; i++) m->d[(size_t)i * m->w + m->w - 1] &= mk; }
}
int lbl_bits(int r, int c) { int n = r * c + 1, b = 0; while ((1 << b) < n) b++; return b < 1 ? 1 : b; }
void pm_fill(pm *m, pat p) {
  memset(m->d, 0, (size_t)m->r * m->w * 8);
  int r = m->r, c = m->c;
  switch (p.kind) {
  case P_Z: break;
  case P_O: memset(m->d, 0xff, (size_t)r * m->w * 8); break;
  case P_U: if (p.a < r && p.b < c) pm_set(m, p.a, p.b, 1); break;
  case P_LBL: case P_NLBL:
    for (int i = 0; i < r; i++) for (int j = 0; j < c; j++) { int v = (int)((((long)i * c + j + 1) >> p.a) & 1); pm_set(m, i, j, p.kind == P_LBL ? v : !v); }
    break;
  case P_CHK: for (int i = 0; i < r; i++) for (int j = 0; j < c; j++) pm_set(m, i, j, (i + j + p.a) & 1); break;
  case P_ID: for (int i = 0; i < r && i < c; i++) pm_set(m, i, i, 1); break;
  case P_SHID: for (int i = 0; i < r; i++) if (i + p.a < c && i + p.a >= 0) pm_set(m, i, i + p.a, 1); break;
  case P_ANTI: for (int i = 0; i < r; i++) if (c - 1 - i >= 0) pm_set(m, i, c - 1 - i, 1); break;
  case P_ROWSTRIPE: for (int i = 0; i < r; i++) if ((i + p.a) & 1) for (int j = 0; j < c; j++) pm_set(m, i, j, 1); break;
  case P_COLSTRIPE: for (int i = 0; i < r; i++) for (int j = 0; j < c; j++) pm_set(m, i, j, (j + p.a) & 1); break;
  case P_WORDSTRIPE: for (int i = 0; i < r; i++) for (int j = 0; j < c; j++) pm_set(m, i, j, ((j >> 6) + p.a) & 1); break;
  case P_PR: {
    uint64_t s = mix(mix(mix(vx_seed, (uint64_t)r << 20 | (uint64_t)c), (uint64_t)p.a), (uint64_t)p.b) | 1;
    for (size_t i = 0; i < (size_t)r * m->w; i++) m->d[i] = dens_word(&s, p.a);
    break; }
  case P_UT: case P_LT: {
    uint64_t s = mix(mix(mix(vx_seed ^ 0x77, (uint64_t)r << 20 | (uint64_t)c), (uint64_t)p.a), (uint64_t)p.b) | 1;
    for (size_t i = 0; i < (size_t)r * m->w; i++) m->d[i] = dens_word(&s, p.a);
    for (int i = 0; i < r; i++) for (int j = 0; j < c; j++) {
      if (i == j) pm_set(m, i, j, 1);
      else if ((p.kind == P_UT) ? (j < i) : (j > i)) pm_set(m, i, j, 0);
    }
    break; }
  case P_CYC: for (int i = 0; i < r; i++) pm_set(m, i, (i + p.a) % c, 1); break;
  case P_CYCT: for (int j = 0; j < c; j++) pm_set(m, (j + p.a) % r, j, 1); break;
  default: hdie("pm_fill: bad pattern %d", p.kind);
  }
  pm_mask(m);
}
pm *pm_pat(int r, int c, pat p) { pm *m = pm_new(r, c); pm_fill(m, p); return m; }
const char *pat_str(pat p, char *buf) {
  static const char *nm[] = {"Z", "O", "U", "LBL", "NLBL", "CHK", "ID", "ANTI", "PR", "ROWS", "COLS", "WORDS", "SHID", "UT", "LT", "CYC", "CYCT"};
  sprintf(buf, "%s(%d,%d)", nm[p.kind], p.a, p.b);
  return buf;
}
pm *pm_unit_upper(int n, int salt, int dens) { return pm_pat(n, n, (pat){P_UT, dens, salt}); }
pm *pm_unit_lower(int n, int salt, int dens) { return pm_pat(n, n, (pat){P_LT, dens, salt}); }
pm *pm_dense_invertible(int n, int salt) {
  pm *L = pm_unit_lower(n, salt, 0), *U = pm_unit_upper(n, salt + 1000, 0);
  pm *A = pm_mul(L, U);
  /* fixed row rotation by salt+1 */
  pm *R = pm_new(n, n);
  for (int i = 0; i < n; i++) memcpy(R->d + (size_t)((i + salt + 1) % n) * R->w, A->d + (size_t)i * A->w, (size_t)A->w * 8);
  pm_free(L); pm_free(U); pm_free(A);
  return R;
}
pm *pm_kron(const pm *M, const pm *J) {
  pm *K = pm_new(M->r * J->r, M->c * J->c);
  for (int i = 0; i < M->r; i++) for (int j = 0; j < M->c; j++) if (pm_get(M, i, j))
    for (int x = 0; x < J->r; x++) for (int y = 0; y < J->c; y++) if (pm_get(J, x, y)) pm_set(K, i * J->r + x, j * J->c + y, 1);
  return K;
}

/* =============================== windows =============================== */
int vw_nest = 0;
vwin vw_make(const pm *content, int make_window, int rowoff, int wordoff, int trailw, int trailr, int fill) {
  vwin w; memset(&w, 0, sizeof w);
  w.r = content->r; w.c = content->c; w.rowoff = rowoff; w.wordoff = wordoff; w.trailw = trailw; w.trailr = trailr; w.fill = fill;
  if (!make_window) { w.view = mzd_from_pm(content); w.parent = NULL; return w; }
  int pc;
  if (trailw < 0) { /* the parent extends beyond the view inside the SAME last word only (rowstride can equal the view's width) */
    int room = 64 * ((content->c + 63) / 64) - content->c; pc = 64 * wordoff + content->c + (room + 1) / 2; trailw = 0;
  } else pc = 64 * wordoff + (trailw ? 64 * ((content->c + 63) / 64) + 64 * trailw : content->c);
  int pr = rowoff + content->r + trailr;
  pm *P = pm_pat(pr, pc, fill == 0 ? (pat){P_Z, 0, 0} : fill == 1 ? (pat){P_O, 0, 0} : (pat){P_PR, 0, 77 + rowoff + wordoff});
  for (int i = 0; i < content->r; i++) for (int j = 0; j < content->c; j++) pm_set(P, rowoff + i, 64 * wordoff + j, pm_get(content, i, j));
  w.parent = mzd_from_pm(P);
  pm_free(P);
  if (vw_nest) { /* view of a view: the intermediate view has the same column range (the inner one reaches ITS parent's last column) and all rows below */
    mzd_t *mid = mzd_init_window(w.parent, rowoff, 64 * wordoff, pr, 64 * wordoff + content->c);
    w.view = mzd_init_window(mid, 0, 0, content->r, content->c); mzd_free(mid);
  } else w.view = mzd_init_window(w.parent, rowoff, 64 * wordoff, rowoff + content->r, 64 * wordoff + content->c);
  return w;
}
static const mzd_t *vw_alloc(const vwin *w) { return w->parent ? w->parent : w->view; }
void vw_snapshot(vwin *w) {
  const mzd_t *P = vw_alloc(w);
  size_t n = (size_t)P->nrows * P->rowstride;
  if (w->snap) hfree(w->snap);
  w->snap = hmalloc(n * 8 + 8); w->snapwords = n;
  if (n) memcpy(w->snap, P->data, n * 8);
}
int vw_all_unchanged(const vwin *w, char *msg, size_t n) {
  const mzd_t *P = vw_alloc(w);
  const uint64_t *d = (const uint64_t *)P->data;
  for (size_t i = 0; i < w->snapwords; i++) if (d[i] != w->snap[i]) {
    if (msg) snprintf(msg, n, "allocation word %zu (row %zu, word %zu) changed %016llx -> %016llx", i, i / P->rowstride, i % P->rowstride, (unsigned long long)w->snap[i], (unsigned long long)d[i]);
    return 0;
  }
  return 1;
}
int vw_outside_changed(const vwin *w, char *msg, size_t n) {
  if (!w->parent) return 0;
  const mzd_t *P = w->parent;
  const uint64_t *d = (const uint64_t *)P->data;
  for (int i = 0; i < P->nrows; i++) for (int x = 0; x < P->rowstride; x++) {
    uint64_t diff = d[(size_t)i * P->rowstride + x] ^ w->snap[(size_t)i * P->rowstride + x];
    if (!diff) continue;
    /* mask off bits that belong to the view */
    if (i >= w->rowoff && i < w->rowoff + w->r) {
      long lo = 64L * x, vlo = 64L * w->wordoff, vhi = vlo + w->c; /* view covers columns [vlo, vhi) */
      for (int b = 0; b < 64; b++) if (lo + b >= vlo && lo + b < vhi) diff &= ~(1ULL << b);
    }
    if (diff) {
      if (msg) snprintf(msg, n, "parent row %d word %d changed outside the view (bits %016llx)", i, x, (unsigned long long)diff);
      return 1;
    }
  }
  return 0;
}
void vw_free(vwin *w) {
  if (w->parent) { mzd_free(w->view); mzd_free(w->parent); } else if (w->view) mzd_free(w->view);
  if (w->snap) hfree(w->snap);
  memset(w, 0, sizeof *w);
}

/* =============================== case runner =============================== */
#define MAXW 64
#define MAXF 4096
#define MAXC 48
#define MAXS 12
typedef struct { volatile uint64_t cur_idx; char cur_id[384]; volatile double t_case; volatile int in_case; volatile int die_entered; char die_msg[256];
  volatile uint64_t executed, total, checks; volatile int done; uint64_t ctr[MAXC]; } wslot;
typedef struct { uint64_t idx; char id[384]; char sig[160]; char clause[64]; char msg[480]; } frec;
typedef struct {
  wslot w[MAXW];
  volatile uint64_t nfail, nfail_total; frec fails[MAXF];
  char cname[MAXC][48]; volatile int ncname;
  char samples[MAXS][384]; volatile int nsamples;
  volatile int deadline_hit; volatile uint64_t set_count; volatile int set_saturated;
  uint64_t setcap; /* followed by set entries */
} shared_t;
static shared_t *S; static volatile uint64_t *SET;
static int g_wid = 0, g_nw = 16; static uint64_t g_counter = 0, g_resume_after = 0; static int g_have_resume = 0;
static int64_t g_replay = -1; static double g_deadline_at = 0; static int g_in_case = 0;
int vx_case_active(void) { return g_in_case; }
int vx_tier = 0; const char *vx_property = "";
static int g_argc; static char **g_argv;
extern long m4ri_verif_mzd_headers_in_use(void); /* hook H3 in mzd.c (guard M4RI_VERIF) */
static long g_hdr0 = 0;
static uint64_t g_sample_stride = 0;
static uint64_t g_group = 0; static int g_group_mode = 0;
void vx_group(void) { g_group++; g_group_mode = 1; }

static double now(void) { struct timeval tv; gettimeofday(&tv, NULL); return tv.tv_sec + tv.tv_usec * 1e-6; }
const char *vx_arg(const char *name, const char *dflt) {
  size_t n = strlen(name);
  for (int i = 1; i < g_argc; i++) if (!strncmp(g_argv[i], "--", 2) && !strncmp(g_argv[i] + 2, name, n) && g_argv[i][2 + n] == '=') return g_argv[i] + 3 + n;
  return dflt;
}
int vx_argi(const char *name, int dflt) { const char *v = vx_arg(name, NULL); return v ? atoi(v) : dflt; }
int vx_deadline_hit(void) { return S->deadline_hit; }

int vx_case_begin(const char *fmt, ...) {
  uint64_t idx = g_counter++;
  if (g_replay >= 0) { if ((int64_t)idx != g_replay) return 0; }
  else {
    if ((g_group_mode ? ((g_group * 0x9E3779B97F4A7C15ULL) >> 33) : idx) % (uint64_t)g_nw != (uint64_t)g_wid) return 0;
    if (g_have_resume && idx <= g_resume_after) return 0;
    if (S->deadline_hit) return 0;
    if (g_deadline_at > 0 && (S->w[g_wid].executed & 63) == 0 && now() > g_deadline_at) { S->deadline_hit = 1; return 0; }
  }
  wslot *w = &S->w[g_wid];
  va_list ap; va_start(ap, fmt); vsnprintf(w->cur_id, sizeof w->cur_id, fmt, ap); va_end(ap);
  w->cur_idx = idx; w->t_case = now(); w->die_entered = 0; w->in_case = 1; g_in_case = 1;
  w->executed++;
  if (S->nsamples < MAXS && g_wid < 4) { uint64_t e = w->executed; if (e == 1 || e == 7 || e == 50 || e == 400 || e == 3000 || e == 25000 || e == 200000) vx_sample(NULL); }
  m4ri_mmc_cleanup(); /* blocks cached outside any case (operands prepared by the enumerator) are not this case's business */
  g_hdr0 = m4ri_verif_mzd_headers_in_use();
  aw_reset(); aw_tracking = 1;
  return 1;
}
void vx_case_end(void) {
  wslot *w = &S->w[g_wid];
  /* allocator balance (U4): drop the block cache so that cases are independent and cached blocks are not counted */
  m4ri_mmc_cleanup();
  aw_tracking = 0;
  long hdr1 = m4ri_verif_mzd_headers_in_use();
  if (hdr1 != g_hdr0) vx_fail("leak", "header-balance", "%ld matrix header(s) still in use after the case (a window or temporary was not freed)", hdr1 - g_hdr0);
  /* a worker that carries leaked headers from an earlier (already reported) case may need an extra header block: not this case's fault */
  if (aw_live != 0 && !(g_hdr0 > 0)) { vx_fail("leak", "allocator-balance", "%ld block(s) still live after the case (temporaries not released)", aw_live); }
  w->in_case = 0; g_in_case = 0;
  if (g_replay >= 0) { w->total = g_counter; w->done = 1; fflush(NULL); COV_DUMP(); _exit(0); }
}
void vx_input(uint64_t digest, int nontrivial) {
  if (!nontrivial || !digest) return;
  if (S->set_saturated) return;
  uint64_t cap = S->setcap, h = digest; h ^= h >> 33; h *= 0xff51afd7ed558ccdULL; h ^= h >> 33; h *= 0xc4ceb9fe1a85ec53ULL; h ^= h >> 33;
  for (uint64_t i = 0; i < 64; i++) {
    uint64_t k = (h + i) & (cap - 1), v = SET[k];
    if (v == digest) return;
    if (v == 0) { if (__sync_bool_compare_and_swap(&SET[k], 0, digest)) { uint64_t c = __sync_add_and_fetch(&S->set_count, 1); if (c * 10 > cap * 7) S->set_saturated = 1; return; } if (SET[k] == digest) return; }
  }
  S->set_saturated = 1;
}
void vx_fail(const char *sig, const char *clause, const char *fmt, ...) {
  wslot *w = &S->w[g_wid];
  __sync_add_and_fetch(&S->nfail_total, 1);
  uint64_t k = __sync_fetch_and_add(&S->nfail, 1);
  if (k >= MAXF) return;
  frec *f = &S->fails[k];
  f->idx = w->cur_idx; snprintf(f->id, sizeof f->id, "%s", w->cur_id);
  snprintf(f->sig, sizeof f->sig, "%s", sig); snprintf(f->clause, sizeof f->clause, "%s", clause);
  va_list ap; va_start(ap, fmt); vsnprintf(f->msg, sizeof f->msg, fmt, ap); va_end(ap);
}
void vx_count(const char *name, uint64_t n) {
  int i;
  for (i = 0; i < S->ncname; i++) if (!strcmp(S->cname[i], name)) break;
  if (i == S->ncname) { /* names are registered identically in every worker in the same order (deterministic enumeration); tolerate races */
    if (i >= MAXC) return;
    snprintf(S->cname[i], 48, "%s", name);
    if (S->ncname <= i) S->ncname = i + 1;
  }
  S->w[g_wid].ctr[i] += n;
}
void vx_sample(const char *s) {
  int k = __sync_fetch_and_add(&S->nsamples, 1);
  if (k >= MAXS) { S->nsamples = MAXS; return; }
  snprintf(S->samples[k], sizeof S->samples[k], "%s", s ? s : S->w[g_wid].cur_id);
}

/* called from alloc_wrap's __wrap_m4ri_die */
void vx_note_die(const char *msg) {
  if (S) { wslot *w = &S->w[g_wid]; w->die_entered = 1; snprintf(w->die_msg, sizeof w->die_msg, "%s", msg); }
}

static void json_str(FILE *f, const char *s) {
  fputc('"', f);
  for (; *s; s++) { unsigned char c = (unsigned char)*s; if (c == '"' || c == '\\') { fputc('\\', f); fputc(c, f); } else if (c < 32) fprintf(f, "\\u%04x", c); else fputc(c, f); }
  fputc('"', f);
}
static char errdir[512];
static void worker_errfile(int wid, char *buf, size_t n) { snprintf(buf, n, "%s/w%d.err", errdir, wid); }
static void tail_summary(const char *path, char *out, size_t n) {
  out[0] = 0;
  FILE *f = fopen(path, "r"); if (!f) return;
  fseek(f, 0, SEEK_END); long sz = ftell(f); long off = sz > 16384 ? sz - 16384 : 0; fseek(f, off, SEEK_SET);
  char *buf = hmalloc(16400); size_t k = fread(buf, 1, 16384, f); buf[k] = 0; fclose(f);
  /* prefer lines with sanitizer keywords */
  const char *keys[] = {"ERROR: AddressSanitizer", "runtime error:", "SUMMARY:", "m4ri_", "ERROR"};
  for (int ki = 0; ki < 5 && !out[0]; ki++) {
    char *p = strstr(buf, keys[ki]);
    if (p) { char *b = p; while (b > buf && b[-1] != '\n') b--; char *e = strchr(p, '\n'); if (!e) e = p + strlen(p); size_t len = (size_t)(e - b); if (len >= n) len = n - 1; memcpy(out, b, len); out[len] = 0; }
  }
  hfree(buf);
}

static pid_t spawn(int wid, int have_resume, uint64_t resume_after) {
  fflush(NULL);
  pid_t p = fork();
  if (p < 0) hdie("fork failed");
  if (p == 0) {
    g_wid = wid; g_have_resume = have_resume; g_resume_after = resume_after; g_counter = 0; g_group = 0; g_group_mode = 0;
    char ef[600]; worker_errfile(wid, ef, sizeof ef);
    int fd = open(ef, O_WRONLY | O_CREAT | O_TRUNC, 0644);
    if (fd >= 0) { dup2(fd, 2); close(fd); }
    S->w[wid].in_case = 0;
    prop_enumerate();
    S->w[wid].total = g_counter; S->w[wid].done = 1;
    fflush(NULL);
    COV_DUMP(); _exit(0);
  }
  return p;
}

int vx_main(int argc, char **argv) {
  g_argc = argc; g_argv = argv;
  double t0 = now();
  vx_tier = !strcmp(vx_arg("tier", "quick"), "thorough");
  vx_seed = strtoull(vx_arg("seed", "0"), NULL, 10);
  g_nw = vx_argi("workers", 16); if (g_nw > MAXW) g_nw = MAXW; if (g_nw < 1) g_nw = 1;
  const char *outp = vx_arg("out", NULL);
  const char *rp = vx_arg("replay-index", NULL);
  if (rp) { g_replay = atoll(rp); g_nw = 1; }
  int deadline = vx_argi("deadline", 0);
  int hang_s = vx_argi("hang", 120);
  int setbits = vx_argi("setbits", 22);
  g_sample_stride = (uint64_t)vx_argi("sample-stride", 100003);
  snprintf(errdir, sizeof errdir, "%s", vx_arg("errdir", "/tmp"));
  vx_property = prop_id;
  uint64_t cap = 1ULL << setbits;
  size_t sz = sizeof(shared_t) + cap * 8;
  S = mmap(NULL, sz, PROT_READ | PROT_WRITE, MAP_SHARED | MAP_ANONYMOUS, -1, 0);
  if (S == MAP_FAILED) hdie("mmap");
  S->setcap = cap; SET = (volatile uint64_t *)(S + 1);
  int nself = vx_selfcheck();
  if (deadline > 0) g_deadline_at = t0 + deadline;
  pid_t pids[MAXW]; int ncrash = 0, nhang = 0;
  for (int i = 0; i < g_nw; i++) pids[i] = spawn(i, 0, 0);
  int alive = g_nw;
  while (alive > 0) {
    int st; pid_t p = waitpid(-1, &st, WNOHANG);
    if (p == 0) {
      usleep(20000);
      double t = now();
      for (int i = 0; i < g_nw; i++) if (pids[i] > 0 && S->w[i].in_case && t - S->w[i].t_case > hang_s) { kill(pids[i], SIGKILL); nhang++; }
      continue;
    }
    if (p < 0) { if (errno == EINTR) continue; break; }
    int wid = -1; for (int i = 0; i < g_nw; i++) if (pids[i] == p) wid = i;
    if (wid < 0) continue;
    wslot *w = &S->w[wid];
    if (WIFEXITED(st) && WEXITSTATUS(st) == 0 && w->done) { pids[wid] = -1; alive--; continue; }
    if (WIFEXITED(st) && WEXITSTATUS(st) == 2) { char ef[600], sm[400]; worker_errfile(wid, ef, sizeof ef); tail_summary(ef, sm, sizeof sm); hdie("worker reported a harness error: %s", sm); }
    /* abnormal end inside (or outside) a case */
    ncrash++;
    char ef[600], sm[400]; worker_errfile(wid, ef, sizeof ef); tail_summary(ef, sm, sizeof sm);
    if (!w->in_case) hdie("worker %d ended abnormally outside any case (status %x): %s", wid, st, sm);
    __sync_add_and_fetch(&S->nfail_total, 1);
    uint64_t k = __sync_fetch_and_add(&S->nfail, 1);
    if (k < MAXF) {
      frec *f = &S->fails[k]; f->idx = w->cur_idx; snprintf(f->id, sizeof f->id, "%s", w->cur_id);
      /* sig = first two '|' separated fields of the id */
      { int bars = 0; size_t j = 0; for (; w->cur_id[j] && j < sizeof f->sig - 1; j++) { if (w->cur_id[j] == '|' && ++bars == 2) break; f->sig[j] = w->cur_id[j]; } f->sig[j] = 0; }
      int sig = WIFSIGNALED(st) ? WTERMSIG(st) : 0;
      if (sig == SIGKILL) { snprintf(f->clause, sizeof f->clause, "hang"); snprintf(f->msg, sizeof f->msg, "case did not finish within %d s (killed)", hang_s); }
      else if (w->die_entered) { snprintf(f->clause, sizeof f->clause, "m4ri_die"); snprintf(f->msg, sizeof f->msg, "library aborted a valid call: %s", w->die_msg); }
      else if (sig == SIGSEGV || sig == SIGBUS) { snprintf(f->clause, sizeof f->clause, "crash"); snprintf(f->msg, sizeof f->msg, "signal %d; %s", sig, sm); }
      else { snprintf(f->clause, sizeof f->clause, "sanitizer"); snprintf(f->msg, sizeof f->msg, "status %x; %s", st, sm); }
    }
    if (g_replay >= 0 || ncrash > 400) { pids[wid] = -1; alive--; if (ncrash > 400) S->deadline_hit = 2; continue; }
    pids[wid] = spawn(wid, 1, w->cur_idx);
  }
  /* aggregate */
  uint64_t executed = 0, total = 0; uint64_t ctr[MAXC] = {0};
  for (int i = 0; i < g_nw; i++) { executed += S->w[i].executed; if (S->w[i].total > total) total = S->w[i].total; for (int c = 0; c < MAXC; c++) ctr[c] += S->w[i].ctr[c]; }
  FILE *f = outp ? fopen(outp, "w") : stdout;
  if (!f) hdie("cannot open %s", outp);
  fprintf(f, "{\"property\":"); json_str(f, prop_id);
  fprintf(f, ",\"tier\":\"%s\",\"seed\":%llu,\"workers\":%d,\"total_cases\":%llu,\"executed\":%llu,\"distinct_nontrivial\":%llu,\"set_saturated\":%d,\"deadline_hit\":%d,\"crashes\":%d,\"hangs\":%d,\"selfcheck\":%d,\"nfail_total\":%llu,\"wall_s\":%.3f,",
          vx_tier ? "thorough" : "quick", (unsigned long long)vx_seed, g_nw, (unsigned long long)total, (unsigned long long)executed, (unsigned long long)S->set_count, S->set_saturated, S->deadline_hit, ncrash, nhang, nself, (unsigned long long)S->nfail_total, now() - t0);
  fprintf(f, "\"counters\":{");
  for (int c = 0; c < S->ncname; c++) { if (c) fputc(',', f); json_str(f, S->cname[c]); fprintf(f, ":%llu", (unsigned long long)ctr[c]); }
  fprintf(f, "},\"samples\":[");
  int ns = S->nsamples > MAXS ? MAXS : S->nsamples;
  for (int i = 0; i < ns; i++) { if (i) fputc(',', f); json_str(f, S->samples[i]); }
  fprintf(f, "],\"failures\":[");
  uint64_t nf = S->nfail > MAXF ? MAXF : S->nfail;
  for (uint64_t i = 0; i < nf; i++) {
    frec *r = &S->fails[i]; if (i) fputc(',', f);
    fprintf(f, "{\"index\":%llu,\"id\":", (unsigned long long)r->idx); json_str(f, r->id);
    fprintf(f, ",\"sig\":"); json_str(f, r->sig); fprintf(f, ",\"clause\":"); json_str(f, r->clause); fprintf(f, ",\"msg\":"); json_str(f, r->msg); fputc('}', f);
  }
  fprintf(f, "]}\n");
  if (outp) fclose(f);
  return 0;
}

/* =============================== fork-call =============================== */
typedef struct { volatile int die_entered; char die_msg[256]; volatile uint64_t ret; volatile long nalloc, site; volatile int returned; } fc_shared;
static fc_shared *FC;
void vx_note_die_fc(const char *msg) { if (FC) { FC->die_entered = 1; snprintf(FC->die_msg, sizeof FC->die_msg, "%s", msg); FC->nalloc = aw_count; FC->site = aw_failed_site; } }
vx_fate vx_fork_call(uint64_t (*fn)(void *), void *arg, int timeout_s) {
  vx_fate r; memset(&r, 0, sizeof r);
  if (!FC) { FC = mmap(NULL, sizeof(fc_shared), PROT_READ | PROT_WRITE, MAP_SHARED | MAP_ANONYMOUS, -1, 0); if (FC == MAP_FAILED) hdie("mmap fc"); }
  memset((void *)FC, 0, sizeof *FC);
  int pfd[2]; if (pipe(pfd)) hdie("pipe");
  fflush(NULL);
  pid_t p = fork();
  if (p < 0) hdie("fork");
  if (p == 0) {
    close(pfd[0]); dup2(pfd[1], 2); close(pfd[1]);
    uint64_t v = fn(arg);
    FC->ret = v; FC->nalloc = aw_count; FC->site = aw_failed_site; FC->returned = 1;
    fflush(NULL);
    COV_DUMP(); _exit(0);
  }
  close(pfd[1]);
  /* read stderr (bounded) while waiting */
  fcntl(pfd[0], F_SETFL, O_NONBLOCK);
  size_t nn = 0; char buf[8192]; double t0 = now(); int st = 0; int done = 0;
  while (!done) {
    ssize_t k = read(pfd[0], buf + nn, sizeof buf - 1 - nn);
    if (k > 0) { nn += (size_t)k; if (nn >= sizeof buf - 1) nn = sizeof buf - 2; }
    pid_t q = waitpid(p, &st, WNOHANG);
    if (q == p) { done = 1; while ((k = read(pfd[0], buf + nn, sizeof buf - 1 - nn)) > 0) { nn += (size_t)k; if (nn >= sizeof buf - 1) { nn = sizeof buf - 2; } } break; }
    if (now() - t0 > timeout_s) { kill(p, SIGKILL); waitpid(p, &st, 0); r.fate = 6; done = 2; break; }
    if (k <= 0) usleep(200);
  }
  close(pfd[0]);
  buf[nn] = 0;
  /* note: first interesting line */
  { const char *keys[] = {"ERROR: AddressSanitizer", "runtime error:", "SUMMARY:"}; r.note[0] = 0;
    for (int i = 0; i < 3 && !r.note[0]; i++) { char *q = strstr(buf, keys[i]); if (q) { char *b = q; while (b > buf && b[-1] != '\n') b--; char *e = strchr(q, '\n'); if (!e) e = q + strlen(q); size_t len = (size_t)(e - b); if (len > sizeof r.note - 1) len = sizeof r.note - 1; memcpy(r.note, b, len); r.note[len] = 0; } }
    if (!r.note[0]) { size_t len = nn > sizeof r.note - 1 ? sizeof r.note - 1 : nn; memcpy(r.note, buf, len); r.note[len] = 0; } }
  r.die_entered = FC->die_entered; snprintf(r.die_msg, sizeof r.die_msg, "%s", FC->die_msg); r.ret = FC->ret; r.nalloc = FC->nalloc; r.site = FC->site; r.status = st;
  if (r.fate == 6) return r;
  if (WIFEXITED(st)) { r.fate = (WEXITSTATUS(st) == 0 && FC->returned) ? 0 : 5; return r; }
  r.sig = WTERMSIG(st);
  if (r.sig == SIGABRT) r.fate = (strstr(buf, "ERROR: AddressSanitizer") || strstr(buf, "runtime error:")) ? 2 : r.die_entered ? 1 : 7;
  else if (r.sig == SIGSEGV || r.sig == SIGBUS) r.fate = 3;
  else r.fate = 4;
  return r;
}
