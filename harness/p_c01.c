/* C01: every multiplication route computes exactly A*B (or C + A*B). */
#include "vx.h"
const char *prop_id = "C01";

typedef struct { const char *name; int kind; int param; } route;
enum { R_NAIVE_NEW, R_NAIVE_SUP, R_ADDNAIVE, R__NAIVE_CLR, R__NAIVE_ACC, R_VA_CLR, R_VA_ACC, R_M4RM_NEW, R_M4RM_SUP, R_ADDM4RM, R__M4RM_CLR, R__M4RM_ACC,
       R_MUL_NEW, R_MUL_SUP, R_ADDMUL, R_SQR_NEW, R_SQR_SUP, R_ADDSQR, R_DJB, R_MP_NEW, R_MP_SUP, R_ADDMP };
static const char *rname[] = {"mzd_mul_naive(NULL)", "mzd_mul_naive(C)", "mzd_addmul_naive", "_mzd_mul_naive(clear=1)", "_mzd_mul_naive(clear=0)", "_mzd_mul_va(clear=1)", "_mzd_mul_va(clear=0)",
  "mzd_mul_m4rm(NULL)", "mzd_mul_m4rm(C)", "mzd_addmul_m4rm", "_mzd_mul_m4rm(clear=1)", "_mzd_mul_m4rm(clear=0)", "mzd_mul(NULL)", "mzd_mul(C)", "mzd_addmul", "mzd_mul(NULL,A,A)", "mzd_mul(C,A,A)", "mzd_addmul(C,A,A)", "djb_compile+apply",
  "mzd_mul_mp(NULL)", "mzd_mul_mp(C)", "mzd_addmul_mp"};

typedef struct { pm *A, *B, *AB, *C0, *C0AB, *BT; uint64_t dig; int nontriv; } ctx;
static void ctx_free(ctx *x) { pm_free(x->A); pm_free(x->B); pm_free(x->AB); pm_free(x->C0); pm_free(x->C0AB); pm_free(x->BT); memset(x, 0, sizeof *x); }

static mzd_t *ones_like(int r, int c) { pm *o = pm_pat(r, c, (pat){P_O, 0, 0}); mzd_t *M = mzd_from_pm(o); pm_free(o); return M; }

/* run one route; returns result matrix (owned) and whether it accumulates */
static void run_route(int kind, int param, ctx *x, const char *shape, const char *pats) {
  char sig[160]; snprintf(sig, sizeof sig, "%s", rname[kind]);
  int acc = (kind == R_ADDNAIVE || kind == R__NAIVE_ACC || kind == R_VA_ACC || kind == R_ADDM4RM || kind == R__M4RM_ACC || kind == R_ADDMUL || kind == R_ADDSQR || kind == R_ADDMP);
  int sqr = (kind == R_SQR_NEW || kind == R_SQR_SUP || kind == R_ADDSQR);
  mzd_t *A = mzd_from_pm(x->A), *B = sqr ? A : mzd_from_pm(x->B), *C = NULL, *R = NULL;
  int m = x->A->r, n = x->B->c;
  if (acc) C = mzd_from_pm(x->C0);
  switch (kind) {
  case R_NAIVE_NEW: R = mzd_mul_naive(NULL, A, B); break;
  case R_NAIVE_SUP: C = ones_like(m, n); R = mzd_mul_naive(C, A, B); break;
  case R_ADDNAIVE: R = mzd_addmul_naive(C, A, B); break;
  case R__NAIVE_CLR: case R__NAIVE_ACC: { mzd_t *BT = mzd_from_pm(x->BT); if (!acc) C = ones_like(m, n); R = _mzd_mul_naive(C, A, BT, !acc); VX_CHECK(mzd_eq_pm(BT, x->BT), sig, "operand-unchanged", "transposed factor modified"); mzd_free(BT); break; }
  case R_VA_CLR: C = ones_like(m, n); R = _mzd_mul_va(C, A, B, 1); break;
  case R_VA_ACC: R = _mzd_mul_va(C, A, B, 0); break;
  case R_M4RM_NEW: R = mzd_mul_m4rm(NULL, A, B, param); break;
  case R_M4RM_SUP: C = ones_like(m, n); R = mzd_mul_m4rm(C, A, B, param); break;
  case R_ADDM4RM: R = mzd_addmul_m4rm(C, A, B, param); break;
  case R__M4RM_CLR: C = ones_like(m, n); R = _mzd_mul_m4rm(C, A, B, param, 1); break;
  case R__M4RM_ACC: R = _mzd_mul_m4rm(C, A, B, param, 0); break;
  case R_MUL_NEW: case R_SQR_NEW: R = mzd_mul(NULL, A, B, param); break;
  case R_MUL_SUP: case R_SQR_SUP: C = ones_like(m, n); R = mzd_mul(C, A, B, param); break;
  case R_ADDMUL: case R_ADDSQR: R = mzd_addmul(C, A, B, param); break;
  case R_DJB: {
    mzd_t *A2 = mzd_from_pm(x->A); djb_t *z = djb_compile(A2); mzd_free(A2);
    R = mzd_init(m, n); djb_apply_mzd(z, R, B); djb_free(z); break; }
#if __M4RI_HAVE_OPENMP
  case R_MP_NEW: R = mzd_mul_mp(NULL, A, B, param); break;
  case R_MP_SUP: C = ones_like(m, n); R = mzd_mul_mp(C, A, B, param); break;
  case R_ADDMP: R = mzd_addmul_mp(C, A, B, param); break;
#endif
  default: break;
  }
  if (R) {
    if (C && R != C) vx_fail(sig, "return-value", "returned a different matrix than the supplied destination");
    const pm *exp = acc ? x->C0AB : x->AB;
    if (!mzd_eq_pm(R, exp)) {
      pm *got = pm_from_mzd(R); int fi = -1, fj = -1, nd = 0;
      if (got->r == exp->r && got->c == exp->c) { for (int i = 0; i < got->r; i++) for (int j = 0; j < got->c; j++) if (pm_get(got, i, j) != pm_get(exp, i, j)) { if (fi < 0) { fi = i; fj = j; } nd++; } }
      vx_fail(sig, acc ? "accumulate-product" : "product", "%s %s: result is %dx%d, differs from the reference in %d entries, first at (%d,%d)", shape, pats, got->r, got->c, nd, fi, fj);
      pm_free(got);
    }
    int pd = mzd_padding_dirty(R);
    if (pd >= 0) vx_fail(sig, "padding", "%s: owned result has non-zero bits beyond the last column in row %d", shape, pd);
    VX_CHECK(mzd_eq_pm(A, x->A) && mzd_padding_dirty(A) < 0, sig, "operand-unchanged", "%s %s: factor A modified", shape, pats);
    if (!sqr) VX_CHECK(mzd_eq_pm(B, x->B) && mzd_padding_dirty(B) < 0, sig, "operand-unchanged", "%s %s: factor B modified", shape, pats);
  }
  if (R && R != C) mzd_free(R);
  if (C) mzd_free(C);
  if (!sqr) mzd_free(B);
  mzd_free(A);
}

static const int KS_ALL[] = {0, 2, 3, 4, 5, 6, 7, 8, -1, 1, 9, 17};
static const int KS_FEW[] = {0, 3, 8};
static const int CUT_ALL[] = {0, 1, 64, 65, 127, 128, 192, 256, 512, 1024, 2048};
static const int CUT_FEW[] = {0, 64, 128};

/* enumerate every route x parameter for one operand pair */
static void all_routes(int m, int l, int n, pat pa, pat pb, pat pc, int rich) {
  char shape[64], pats[128], b1[40], b2[40], b3[40];
  snprintf(shape, sizeof shape, "%dx%dx%d", m, l, n);
  snprintf(pats, sizeof pats, "A=%s,B=%s,C=%s", pat_str(pa, b1), pat_str(pb, b2), pat_str(pc, b3));
  vx_group();
  ctx x; memset(&x, 0, sizeof x); int ready = 0;
  const int *ks = rich ? KS_ALL : KS_FEW; int nks = rich ? 12 : 3;
  const int *cuts = rich ? CUT_ALL : CUT_FEW; int ncuts = rich ? 11 : 3;
  for (int kind = 0; kind <= R_ADDMP; kind++) {
    int np = 1; const int *ps = NULL;
    if (kind >= R_M4RM_NEW && kind <= R__M4RM_ACC) { ps = ks; np = nks; }
    if ((kind >= R_MUL_NEW && kind <= R_ADDSQR) || kind >= R_MP_NEW) { ps = cuts; np = ncuts; }
    if ((kind == R_SQR_NEW || kind == R_SQR_SUP || kind == R_ADDSQR) && !(m == l && l == n)) continue;
    if ((kind == R__M4RM_CLR || kind == R__M4RM_ACC) && !rich) continue;
#if !__M4RI_HAVE_OPENMP
    if (kind >= R_MP_NEW) continue;
#endif
    if (kind == R_DJB && ((m > 200) || !rich)) continue; /* djb_compile is quadratic in rows; W and V must have equal width */
    for (int pi = 0; pi < np; pi++) {
      int param = ps ? ps[pi] : 0;
      if (!vx_case_begin("%s|p=%d|%s|%s", rname[kind], param, shape, pats)) continue;
      if (!ready) {
        x.A = pm_pat(m, l, pa); x.B = pm_pat(l, n, pb); x.AB = pm_mul(x.A, x.B); x.C0 = pm_pat(m, n, pc); x.C0AB = pm_add(x.C0, x.AB); x.BT = pm_transpose(x.B);
        x.dig = pm_hash(x.A) * 31 + pm_hash(x.B) * 17 + pm_hash(x.C0); x.nontriv = !pm_is_zero(x.AB);
        ready = 1;
      }
      int sqr = (kind == R_SQR_NEW || kind == R_SQR_SUP || kind == R_ADDSQR);
      if (sqr) { /* squaring: B := A */
        ctx y; memset(&y, 0, sizeof y);
        y.A = pm_copy(x.A); y.B = pm_copy(x.A); y.AB = pm_mul(y.A, y.A); y.C0 = pm_copy(x.C0); y.C0AB = pm_add(y.C0, y.AB); y.BT = pm_transpose(y.A);
        run_route(kind, param, &y, shape, pats);
        vx_input(pm_hash(y.A) * 131 + (uint64_t)kind * 7919 + (uint64_t)param, !pm_is_zero(y.AB));
        ctx_free(&y);
      } else {
        run_route(kind, param, &x, shape, pats);
        vx_input(x.dig + (uint64_t)kind * 7919 + (uint64_t)(param + 2) * 104729, x.nontriv);
      }
      vx_case_end();
    }
  }
  if (ready) ctx_free(&x);
}

static void shape_block(int m, int l, int n, int units, int rich) {
  static const pat dense[] = {{P_PR, 0, 1}, {P_PR, 0, 2}, {P_O, 0, 0}, {P_PR, 1, 3}, {P_PR, 2, 4}, {P_ID, 0, 0}, {P_Z, 0, 0}, {P_CHK, 0, 0}};
  pat Cz = {P_PR, 0, 9};
  /* dense x dense and structured pairs */
  all_routes(m, l, n, dense[0], dense[1], Cz, rich);
  all_routes(m, l, n, dense[2], dense[2], (pat){P_O, 0, 0}, 0);
  all_routes(m, l, n, dense[3], dense[4], (pat){P_Z, 0, 0}, 0);   /* sparse x nearly-full */
  all_routes(m, l, n, dense[5], dense[0], Cz, 0);                 /* identity-like x dense */
  all_routes(m, l, n, dense[0], dense[5], Cz, 0);
  all_routes(m, l, n, dense[6], dense[0], Cz, 0);                 /* zero x dense */
  all_routes(m, l, n, dense[0], dense[6], (pat){P_O, 0, 0}, 0);
  all_routes(m, l, n, dense[7], dense[3], Cz, 0);
  if (units) {
    /* complete bases by bilinearity: row i of the product depends on row i of A only, column j on column j of B only:
       the l cyclic single-entry-per-row matrices cover every unit U(i,j) of A, likewise for B */
    for (int s = 0; s < l; s++) all_routes(m, l, n, (pat){P_CYC, s, 0}, dense[0], (pat){P_Z, 0, 0}, 0);
    for (int s = 0; s < l; s++) all_routes(m, l, n, dense[1], (pat){P_CYCT, s, 0}, (pat){P_Z, 0, 0}, 0);
  }
}

/* factors that are two distinct views into ONE parent (common top-left corner, or side by side): the product must not depend on
   how the factors are related in memory - only the identical object may take the squaring route */
static void alias_case(int m, int l, int n, int layout, int route, int param) {
  static const char *rn[] = {"mzd_mul(NULL)", "mzd_addmul", "mzd_mul_m4rm(NULL)", "mzd_mul_naive(NULL)", "mzd_mul(C)"};
  if (!vx_case_begin("%s|p=%d|alias-layout=%d|%dx%dx%d", rn[route], param, layout, m, l, n)) return;
  int pr = (m > l ? m : l) + (layout == 2 ? 3 : 0), pc = layout == 0 ? (l > n ? l : n) : (64 * ((l + 63) / 64) + n);
  pm *P = pm_pat(pr, pc, (pat){P_PR, 0, 21});
  mzd_t *Pz = mzd_from_pm(P);
  int ar = layout == 2 ? 3 : 0;
  mzd_t *A = mzd_init_window(Pz, ar, 0, ar + m, l), *B = layout == 0 ? mzd_init_window(Pz, 0, 0, l, n) : mzd_init_window(Pz, 0, 64 * ((l + 63) / 64), l, 64 * ((l + 63) / 64) + n);
  pm *Ap = pm_sub(P, ar, 0, ar + m, l), *Bp = layout == 0 ? pm_sub(P, 0, 0, l, n) : pm_sub(P, 0, 64 * ((l + 63) / 64), l, 64 * ((l + 63) / 64) + n);
  pm *AB = pm_mul(Ap, Bp), *C0 = pm_pat(m, n, (pat){P_PR, 0, 9}), *E = route == 1 ? pm_add(C0, AB) : pm_copy(AB);
  mzd_t *C = (route == 1 || route == 4) ? mzd_from_pm(C0) : NULL, *R = NULL;
  switch (route) { case 0: R = mzd_mul(NULL, A, B, param); break; case 1: R = mzd_addmul(C, A, B, param); break; case 2: R = mzd_mul_m4rm(NULL, A, B, param); break; case 3: R = mzd_mul_naive(NULL, A, B); break; case 4: R = mzd_mul(C, A, B, param); break; }
  if (!mzd_eq_pm(R, E)) vx_fail(rn[route], "product(aliased-views)", "%dx%dx%d layout %d parameter %d: factors are two views of one matrix (%s); result differs from the reference product", m, l, n, layout, param, layout == 0 ? "common top-left corner" : layout == 1 ? "side by side" : "overlapping rows");
  if (mzd_padding_dirty(R) >= 0) vx_fail(rn[route], "padding", "%dx%dx%d aliased views", m, l, n);
  VX_CHECK(mzd_eq_pm(Pz, P), rn[route], "operand-unchanged", "%dx%dx%d: parent of the aliased views modified", m, l, n);
  vx_input(pm_hash(P) ^ ((uint64_t)route << 56) ^ ((uint64_t)layout << 52) ^ ((uint64_t)(param + 1) << 40) ^ ((uint64_t)m << 28) ^ ((uint64_t)n << 14), 1);
  if (R && R != C) mzd_free(R);
  if (C) mzd_free(C);
  mzd_free(A); mzd_free(B); mzd_free(Pz);
  pm_free(P); pm_free(Ap); pm_free(Bp); pm_free(AB); pm_free(C0); pm_free(E);
  vx_case_end();
}

/* compiled DJB linear maps: djb_compile(A) applied to a zeroed target must give A*V for every shape of A (multi-word rows
   exercise the reverse-lexicographic row comparison) and every width of V (all residues of the word-wise row addition) */
static void djb_case(int m, int l, int n, pat pa, pat pb) {
  char b1[40], b2[40];
  if (!vx_case_begin("djb_compile+apply|%dx%dx%d|A=%s|V=%s", m, l, n, pat_str(pa, b1), pat_str(pb, b2))) return;
  pm *A = pm_pat(m, l, pa), *V = pm_pat(l, n, pb), *E = pm_mul(A, V);
  mzd_t *Az = mzd_from_pm(A), *Vz = mzd_from_pm(V), *W = mzd_init(m, n);
  djb_t *z = djb_compile(Az);
  if (!z) vx_fail("djb_compile+apply", "product", "%dx%dx%d: djb_compile returned NULL", m, l, n);
  else {
    if (z->nrows != m || z->ncols != l) vx_fail("djb_compile+apply", "dimensions", "%dx%d map reports %dx%d", m, l, z->nrows, z->ncols);
    for (int i = 0; i < z->length; i++) { int src_ok = z->srctyp[i] == source_source ? (z->source[i] >= 0 && z->source[i] < l) : (z->source[i] >= 0 && z->source[i] < m); if (z->target[i] < 0 || z->target[i] >= m || !src_ok) { vx_fail("djb_compile+apply", "program", "%dx%d: instruction %d addresses row %d <- %d out of range", m, l, i, z->target[i], z->source[i]); break; } }
    djb_apply_mzd(z, W, Vz);
    if (!mzd_eq_pm(W, E)) vx_fail("djb_compile+apply", "product", "%dx%dx%d A=%s V=%s: applying the compiled map to a zeroed target differs from A*V", m, l, n, b1, b2);
    if (mzd_padding_dirty(W) >= 0) vx_fail("djb_compile+apply", "padding", "%dx%dx%d: target has non-zero bits beyond its last column", m, l, n);
    if (!mzd_eq_pm(Vz, V) || mzd_padding_dirty(Vz) >= 0) vx_fail("djb_compile+apply", "operand-unchanged", "%dx%dx%d: V modified", m, l, n);
    djb_free(z);
  }
  vx_input(pm_hash(A) * 31 + pm_hash(V) + (uint64_t)n, !pm_is_zero(E));
  mzd_free(W); mzd_free(Vz); mzd_free(Az); pm_free(A); pm_free(V); pm_free(E);
  vx_case_end();
}
static void mode_djb(void) {
  static const int M[] = {1, 2, 3, 5, 8, 17, 33, 64, 65, 100, 130}, L[] = {1, 2, 7, 31, 63, 64, 65, 100, 127, 128, 129, 200}, N[] = {1, 63, 64, 65, 128, 129, 192, 257, 320, 384, 448, 512, 513, 577};
  static const pat PA[] = {{P_PR, 0, 1}, {P_PR, 1, 3}, {P_PR, 2, 4}, {P_O, 0, 0}, {P_Z, 0, 0}, {P_ID, 0, 0}, {P_CHK, 0, 0}, {P_ANTI, 0, 0}, {P_UT, 0, 5}, {P_LT, 1, 6}};
  for (int a = 0; a < 11; a++) for (int b = 0; b < 12; b++) for (int c = 0; c < 14; c++) {
    int m = M[a], l = L[b], n = N[c];
    if (!vx_tier && ((a + b + c) % 2)) continue;
    for (int p = 0; p < 10; p++) djb_case(m, l, n, PA[p], (pat){P_PR, 0, 2});
    djb_case(m, l, n, PA[0], (pat){P_O, 0, 0});
  }
  /* every single-entry A (complete basis) and every duplicate-row pattern for small shapes */
  for (int m = 1; m <= 9; m++) for (int l = 1; l <= 9; l++) { for (int s = 0; s < l; s++) djb_case(m, l, 65, (pat){P_CYC, s, 0}, (pat){P_PR, 0, 2}); for (int s = 0; s < 4; s++) djb_case(m, l, 3, (pat){P_ROWSTRIPE, s, 0}, (pat){P_PR, 0, 2}); }
  for (int m = 60; m <= 70; m += 5) for (int l = 126; l <= 130; l++) for (int s = 0; s < l; s += 7) djb_case(m, l, 129, (pat){P_CYC, s, 0}, (pat){P_PR, 0, 2});
}

void prop_enumerate(void) {
  const char *mode = vx_arg("mode", "grid");
  if (!strcmp(mode, "djb")) { mode_djb(); return; }
  if (!strcmp(mode, "alias")) {
    static const int DQ[] = {1, 33, 64, 65, 128, 130, 200}, DT[] = {1, 17, 33, 63, 64, 65, 100, 127, 128, 129, 130, 200, 320};
    const int *D = vx_tier ? DT : DQ; int nd = vx_tier ? 13 : 7;
    static const int CUTS[] = {0, 64, 128};
    for (int a = 0; a < nd; a++) for (int b = 0; b < nd; b++) for (int c = 0; c < nd; c++) for (int layout = 0; layout < 3; layout++) {
      int m = D[a], l = D[b], n = D[c];
      if (!vx_tier && !(m == n || a == c + 1 || b == c)) continue; /* quick: square results (the squaring-route shapes) and a diagonal slice */
      for (int route = 0; route < 5; route++) for (int ci = 0; ci < ((route == 2 || route == 3) ? 1 : 3); ci++) alias_case(m, l, n, layout, route, route == 2 ? 0 : CUTS[ci]);
    }
    return;
  }
  if (!strcmp(mode, "grid")) {
    static const int Q[] = {1, 16, 17, 54, 64, 65, 128, 129};
    static const int T[] = {1, 2, 15, 16, 17, 53, 54, 55, 63, 64, 65, 85, 86, 100, 127, 128, 129, 170, 171, 191, 192, 193, 200, 255, 256, 257};
    const int *D = vx_tier ? T : Q; int nd = vx_tier ? 26 : 8;
    for (int a = 0; a < nd; a++) for (int b = 0; b < nd; b++) for (int c = 0; c < nd; c++) {
      int m = D[a], l = D[b], n = D[c];
      if ((long)m * l * n > (1L << 24)) continue;
      int units = vx_tier ? (m * l <= 130 * 130 && l <= 130) : (l <= 65 && m <= 65 && n <= 65);
      shape_block(m, l, n, units, 1);
    }
  } else if (!strcmp(mode, "split")) {
    /* Strassen split limits: every value in [4c/3-2, 2c+2) in each of the three positions */
    static const int others[] = {64, 100, 129, 200};
    int cs[] = {64, 128}; int ncs = vx_tier ? 2 : 1;
    for (int ci = 0; ci < ncs; ci++) { int c = cs[ci];
      for (int v = 4 * c / 3 - 2; v < 2 * c + 2; v += (vx_tier ? 1 : 3)) for (int pos = 0; pos < 3; pos++) for (int o1 = 0; o1 < 4; o1++) for (int o2 = 0; o2 < 4; o2++) {
        if (!vx_tier && o1 != o2 && (o1 + o2) % 2) continue;
        int d[3]; d[pos] = v; d[(pos + 1) % 3] = others[o1]; d[(pos + 2) % 3] = others[o2];
        all_routes(d[0], d[1], d[2], (pat){P_PR, 0, 1}, (pat){P_PR, 0, 2}, (pat){P_PR, 0, 9}, 1);
      }
      for (int v = 4 * c / 3 - 2; v < 2 * c + 2; v++) all_routes(v, v, v, (pat){P_PR, 0, 1}, (pat){P_PR, 0, 2}, (pat){P_PR, 0, 9}, 1);
    }
  } else if (!strcmp(mode, "big")) {
    /* thresholds of the configuration built: blocks of M4RM (MUL_BLOCKSIZE), Strassen cutoff */
    int bs = __M4RI_MUL_BLOCKSIZE, sc = __M4RI_STRASSEN_MUL_CUTOFF;
    int cand[16], nc = 0;
    int ts[] = {bs, sc};
    for (int t = 0; t < 2; t++) { int T = ts[t]; int vs[] = {T - 1, T, T + 1, 2 * T - 1, 2 * T, 2 * T + 1}; for (int i = 0; i < 6; i++) if (vs[i] <= 1400 && vs[i] > 0) { int dup = 0; for (int j = 0; j < nc; j++) if (cand[j] == vs[i]) dup = 1; if (!dup && nc < 16) cand[nc++] = vs[i]; } }
    int small[] = {64, 129, 200};
    for (int i = 0; i < nc; i++) {
      int v = cand[i];
      all_routes(v, v, v, (pat){P_PR, 0, 1}, (pat){P_PR, 0, 2}, (pat){P_PR, 0, 9}, vx_tier);
      /* thin factors: the cubic route is taken for n < 54 (and m < 16) whatever the other dimensions are */
      { int thin[] = {1, 16, 53};
        for (int s = 0; s < 3; s++) {
          all_routes(v, small[s], thin[s], (pat){P_PR, 0, 1}, (pat){P_PR, 0, 2}, (pat){P_PR, 0, 9}, 0);
          all_routes(thin[s], v, small[s], (pat){P_PR, 0, 1}, (pat){P_PR, 0, 2}, (pat){P_PR, 0, 9}, 0);
          all_routes(small[s], thin[s], v, (pat){P_PR, 0, 1}, (pat){P_PR, 0, 2}, (pat){P_PR, 0, 9}, 0);
          all_routes(v, thin[s], v, (pat){P_PR, 0, 1}, (pat){P_PR, 0, 2}, (pat){P_PR, 0, 9}, 0);
        } }
      for (int s = 0; s < 3; s++) {
        all_routes(v, small[s], small[(s + 1) % 3], (pat){P_PR, 0, 1}, (pat){P_PR, 0, 2}, (pat){P_PR, 0, 9}, 0);
        all_routes(small[s], v, small[(s + 1) % 3], (pat){P_PR, 0, 1}, (pat){P_PR, 0, 2}, (pat){P_PR, 0, 9}, 0);
        all_routes(small[s], small[(s + 1) % 3], v, (pat){P_PR, 0, 1}, (pat){P_PR, 0, 2}, (pat){P_PR, 0, 9}, 0);
      }
      if (vx_tier) for (int j = 0; j < nc; j++) if (i != j) all_routes(v, cand[j], cand[(i + j) % nc], (pat){P_PR, 0, 1}, (pat){P_PR, 0, 2}, (pat){P_PR, 0, 9}, 0);
    }
  }
}
int main(int argc, char **argv) { return vx_main(argc, argv); }
