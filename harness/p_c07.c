/* C07: kernel routine returns a basis of the right null space, NULL iff trivial. */
#include "rankgen.h"
const char *prop_id = "C07";

static void on_spec(const rk_spec *s, void *u) {
  if (s->fam == F_RECW && s->c > 9000) return; /* the kernel is n x (n-r) and the right-hand side has max(m,n) rows: the very wide members of the family are out of reach here (C03 runs them) */
  (void)u;
  char desc[160]; rk_str(s, desc, sizeof desc);
  vx_group();
  pm *A = NULL; int rank = 0;
  static const int CUTQ[] = {0, 64}, CUTT[] = {0, 64, 128, 256};
  int nc = s->fam == F_TINY ? 1 : (vx_tier ? 4 : 2);
  for (int ci = 0; ci < nc; ci++) {
    int cutoff = (vx_tier ? CUTT : CUTQ)[ci];
    if (!vx_case_begin("mzd_kernel_left_pluq|cutoff=%d|%s", cutoff, desc)) continue;
    if (!A) { A = rk_build(s); rank = pm_rank(A); }
    int n = A->c;
    mzd_t *Az = mzd_from_pm(A);
    mzd_t *K = mzd_kernel_left_pluq(Az, cutoff);
    const char *sig = "mzd_kernel_left_pluq";
    if (rank == n) { VX_CHECK(K == NULL, sig, "null-iff-trivial", "%s: full column rank %d but a kernel matrix was returned", desc, rank); }
    else if (!K) vx_fail(sig, "null-iff-trivial", "%s: rank %d < %d columns but NULL was returned", desc, rank, n);
    if (K) {
      if (K->nrows != n || K->ncols != n - rank) vx_fail(sig, "dimensions", "%s: kernel is %dx%d, expected %dx%d", desc, K->nrows, K->ncols, n, n - rank);
      else {
        pm *Kp = pm_from_mzd(K); pm *AK = pm_mul(A, Kp);
        if (!pm_is_zero(AK)) { int bad = 0; for (int j = 0; j < AK->c; j++) for (int i = 0; i < AK->r; i++) if (pm_get(AK, i, j)) { bad++; break; } vx_fail(sig, "A*K=0", "%s: %d of %d kernel columns are not in the null space of the original matrix", desc, bad, AK->c); }
        int rk = pm_rank(Kp);
        if (rk != n - rank) vx_fail(sig, "independent", "%s: kernel columns have rank %d, expected %d", desc, rk, n - rank);
        pm_free(Kp); pm_free(AK);
      }
      int pd = mzd_padding_dirty(K);
      if (pd >= 0) vx_fail(sig, "padding", "%s: non-zero bits beyond the last column of K in row %d", desc, pd);
      mzd_free(K);
    }
    mzd_free(Az);
    vx_input(pm_hash(A) * 31 + (uint64_t)cutoff, rank > 0 && rank < n);
    vx_case_end();
  }
  if (A) pm_free(A);
}

void prop_enumerate(void) {
  const char *mode = vx_arg("mode", "tiny");
  if (!strcmp(mode, "tiny")) rk_enumerate(1 << F_TINY, vx_tier ? 20 : 16, 0, on_spec, NULL);
  else if (!strcmp(mode, "lift")) rk_enumerate(1 << F_LIFT, 0, vx_tier ? 12 : 9, on_spec, NULL);
  else if (!strcmp(mode, "struct")) rk_enumerate((1 << F_ECH) | (1 << F_RK) | (1 << F_BND), 0, 0, on_spec, NULL);
  else if (!strcmp(mode, "rec")) rk_enumerate((1 << F_REC) | (1 << F_RECW), 0, 0, on_spec, NULL);
}
int main(int argc, char **argv) { return vx_main(argc, argv); }
