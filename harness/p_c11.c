/* C11: memory safety - valid calls stay inside their operands and invoke no UB; ill-dimensioned calls to the checked
 * wrappers end in m4ri_die before any operand is touched.  Oracle: ASan (with the parent words around a view poisoned),
 * UBSan (shift, overflow, alignment), allocator / header balance, fate of forked children. */
#define _GNU_SOURCE
#include "ops.h"
#include "rankgen.h"
#include <sys/mman.h>
#include <sanitizer/asan_interface.h>
const char *prop_id = "C11";

typedef struct { int rowoff, wordoff, trailw, trailr; } plc;
static const plc PL[] = {{1, 1, 1, 2}, {0, 2, 2, 0}, {3, 1, 1, 0}, {1, 0, 1, 2}, {0, 1, 2, 2}, {3, 3, 1, 2}, {0, 0, -1, 2}};
#define NPL 7

/* poison every word of the parent allocation that lies outside the word rectangle of the view */
static void poison_around(const vwin *w, int on) {
  if (!w->parent) return;
  const mzd_t *P = w->parent; int vw = (w->c + 63) / 64;
  for (int i = 0; i < P->nrows; i++) {
    uint64_t *row = (uint64_t *)P->data + (size_t)i * P->rowstride;
    int inrows = (i >= w->rowoff && i < w->rowoff + w->r);
    for (int x = 0; x < P->rowstride; x++) {
      int inside = inrows && x >= w->wordoff && x < w->wordoff + vw;
      if (inside) continue;
      if (on) ASAN_POISON_MEMORY_REGION(row + x, 8); else ASAN_UNPOISON_MEMORY_REGION(row + x, 8);
    }
  }
}

static void mode_ops(void) {
  for (int oi = 0; oi < NOPS; oi++) { const vop *o = &OPS[oi];
    for (int si = 0; si < o->nshapes; si++) for (int data = 0; data < 2; data++) {
      const oshape *s = &o->shapes[si];
      vx_group();
      /* variant 0: all operands owned; variant 1+k*NPL+p: operand k is a view at placement p with poisoned surroundings */
      int nvar = 1 + o->nmat * NPL;
      for (int var = 0; var < nvar; var++) {
        int wk = var ? (var - 1) / NPL : -1, pi = var ? (var - 1) % NPL : 0;
        if (wk >= 0 && (o->nowin & (1 << wk))) continue;
        if (!vx_tier && var && (pi >= 3 && pi != 6) && data) continue;
        if (!vx_case_begin("%s|shape=%d|data=%d|%s=%d|place=%d", o->name, si, data, wk >= 0 ? "view" : "owned", wk, pi)) continue;
        vwin w[3]; mzd_t *m[3] = {0, 0, 0}, *res = NULL;
        for (int k = 0; k < o->nmat; k++) { pm *c = op_content(o, s, k, data); w[k] = vw_make(c, k == wk, PL[pi].rowoff, PL[pi].wordoff, PL[pi].trailw, PL[pi].trailr, 1); pm_free(c); m[k] = w[k].view; }
        if (wk >= 0) poison_around(&w[wk], 1);
        (void)o->run(m, s, &res);
        if (wk >= 0) poison_around(&w[wk], 0);
        if (res) mzd_free(res);
        for (int k = 0; k < o->nmat; k++) vw_free(&w[k]);
        vx_input(((uint64_t)oi << 40) ^ ((uint64_t)si << 32) ^ ((uint64_t)data << 31) ^ (uint64_t)var, 1);
        vx_case_end();
      }
    }
  }
}

/* ---------- ill-dimensioned calls to the checked wrappers ---------- */
static unsigned char *ARENA; static size_t arena_used; static unsigned char *SNAP;
#define ARENA_SZ (1u << 22)
static word *PRIV[3];
static mzd_t *shared_mat(int k, int r, int c, int salt) {
  pm *p = pm_pat(r, c, (pat){P_PR, 0, salt}); mzd_t *M = mzd_from_pm(p); pm_free(p);
  size_t bytes = (size_t)M->nrows * M->rowstride * 8;
  arena_used = (arena_used + 63) & ~(size_t)63;
  memcpy(ARENA + arena_used, M->data, bytes);
  /* the header keeps pointing to its private block for freeing; the library sees the shared copy */
  PRIV[k] = M->data; M->data = (word *)(ARENA + arena_used); arena_used += bytes;
  return M;
}
typedef struct { int id, v; int a, b, c, d, e, f; } illcase;
static mzd_t *IM[4]; static mzp_t *IP[2];
static uint64_t ill_call(void *arg) {
  illcase *q = arg;
  switch (q->id) {
  case 0: mzd_mul(IM[0], IM[1], IM[2], 0); break;
  case 1: mzd_addmul(IM[0], IM[1], IM[2], 0); break;
  case 2: mzd_mul_m4rm(IM[0], IM[1], IM[2], 0); break;
  case 3: mzd_addmul_m4rm(IM[0], IM[1], IM[2], 0); break;
  case 4: mzd_mul_naive(IM[0], IM[1], IM[2]); break;
  case 5: mzd_addmul_naive(IM[0], IM[1], IM[2]); break;
  case 6: mzd_add(IM[0], IM[1], IM[2]); break;
  case 7: mzd_copy(IM[0], IM[1]); break;
  case 8: mzd_transpose(IM[0], IM[1]); break;
  case 9: mzd_concat(IM[0], IM[1], IM[2]); break;
  case 10: mzd_stack(IM[0], IM[1], IM[2]); break;
  case 11: mzd_submatrix(IM[0], IM[1], 0, 0, q->e, q->f); break;
  case 12: mzd_trsm_upper_left(IM[0], IM[1], 0); break;
  case 13: mzd_trsm_lower_left(IM[0], IM[1], 0); break;
  case 14: mzd_trsm_upper_right(IM[0], IM[1], 0); break;
  case 15: mzd_trsm_lower_right(IM[0], IM[1], 0); break;
  case 16: mzd_ple(IM[0], IP[0], IP[1], 0); break;
  case 17: mzd_pluq(IM[0], IP[0], IP[1], 0); break;
  case 18: mzd_solve_left(IM[0], IM[1], 0, 1); break;
  case 19: mzd_pluq_solve_left(IM[0], 1, IP[0], IP[1], IM[1], 0, 1); break;
  case 20: mzd_mul(NULL, IM[1], IM[2], 0); break;
  case 21: mzd_mul(IM[0], IM[1], IM[2], -1); break;
  case 22: mzd_addmul(IM[0], IM[1], IM[2], -5); break;
  case 23: mzd_mul_m4rm(NULL, IM[1], IM[2], 0); break;
  case 24: mzp_copy(IP[0], IP[1]); break;
  }
  return 1;
}
static const char *illname[] = {"mzd_mul", "mzd_addmul", "mzd_mul_m4rm", "mzd_addmul_m4rm", "mzd_mul_naive", "mzd_addmul_naive", "mzd_add", "mzd_copy", "mzd_transpose", "mzd_concat", "mzd_stack", "mzd_submatrix",
  "mzd_trsm_upper_left", "mzd_trsm_lower_left", "mzd_trsm_upper_right", "mzd_trsm_lower_right", "mzd_ple", "mzd_pluq", "mzd_solve_left", "mzd_pluq_solve_left", "mzd_mul(NULL)", "mzd_mul(cutoff<0)", "mzd_addmul(cutoff<0)", "mzd_mul_m4rm(NULL)", "mzp_copy"};

/* dims for (id, variant): returns 0 when the variant does not exist. d = {r0,c0,r1,c1,r2,c2}; perm lengths in pl */
static int ill_dims(int id, int v, int base, int d[6], int pl[2], int *e, int *f) {
  int m = base, l = base + 3, n = base + 7;
  d[0] = m; d[1] = n; d[2] = m; d[3] = l; d[4] = l; d[5] = n; pl[0] = pl[1] = 0; *e = *f = 0;
  int dv = (v & 1) ? 1 : -1, which = v / 2;
  switch (id) {
  case 0: case 1: case 2: case 3: case 4: case 5: case 21: case 22: /* C (m x n) = A (m x l) * B (l x n) */
    if (id >= 21) { return v == 0; } /* valid dims, negative cutoff */
    if (id == 4 || id == 5) { if (which > 1) return 0; if (which == 0) d[0] += dv; else d[1] += dv; return 1; } /* naive wrappers check C only */
    if (which == 0) d[3] += dv; else if (which == 1) d[0] += dv; else if (which == 2) d[1] += dv; else return 0;
    return 1;
  case 20: case 23: if (v > 1) return 0; d[3] += dv; return 1;
  case 6: d[2] = m; d[3] = n; d[4] = m; d[5] = n; if (which == 0) d[4] += dv; else if (which == 1) d[5] += dv; else if (which == 2) d[0] += dv; else if (which == 3) d[1] += dv; else return 0; return 1;
  case 7: d[2] = m; d[3] = n; if (which == 0) d[0] -= 1; else if (which == 1) d[1] -= 1; else return 0; return (v & 1) == 0;
  case 8: d[0] = n; d[1] = m; d[2] = m; d[3] = n; if (which == 0) d[0] += dv; else if (which == 1) d[1] += dv; else return 0; return 1;
  case 9: d[2] = m; d[3] = l; d[4] = m; d[5] = n; d[0] = m; d[1] = l + n; if (which == 0) d[4] += dv; else if (which == 1) d[0] += dv; else if (which == 2) d[1] += dv; else return 0; return 1;
  case 10: d[2] = m; d[3] = n; d[4] = l; d[5] = n; d[0] = m + l; d[1] = n; if (which == 0) d[5] += dv; else if (which == 1) d[0] += dv; else if (which == 2) d[1] += dv; else return 0; return 1;
  case 11: d[2] = m + 5; d[3] = n + 70; *e = m; *f = n; d[0] = m; d[1] = n; if (which == 0) d[0] -= 1; else if (which == 1) d[1] -= 1; else return 0; return (v & 1) == 0;
  case 12: case 13: /* T (m x m), B (m x n) */ d[0] = m; d[1] = m; d[2] = m; d[3] = n; if (which == 0) d[2] += dv; else if (which == 1) d[1] += dv; else return 0; return 1;
  case 14: case 15: /* T (n x n), B (m x n) */ d[0] = n; d[1] = n; d[2] = m; d[3] = n; if (which == 0) d[3] += dv; else if (which == 1) d[1] += dv; else return 0; return 1;
  case 16: case 17: d[0] = m; d[1] = n; pl[0] = m; pl[1] = n; if (which == 0) pl[0] += dv; else if (which == 1) pl[1] += dv; else return 0; return 1;
  case 18: /* A (m x n), B (max x w) */ d[0] = m; d[1] = n; d[2] = n; d[3] = 5; if (which == 0) d[2] += dv; else if (which == 1) { d[0] = n + 4; d[2] = n + 4 + dv; } else return 0; return 1;
  case 19: d[0] = m; d[1] = n; d[2] = n; d[3] = 5; pl[0] = m; pl[1] = n; if (which == 0) d[2] = n - 1; else if (which == 1) pl[0] += dv; else if (which == 2) pl[1] += dv; else return 0; return which ? 1 : (v & 1) == 0;
  case 24: pl[0] = m; pl[1] = m + 1; return v == 0;
  }
  return 0;
}
/* life-cycle calls in the middle of a run: m4ri_mmc_cleanup() / m4ri_fini() + m4ri_init() between creations and releases, all
   inside ONE case so that a stale cache slot or table pointer is used under the sanitizer within the case that caused it */
static void touch(mzd_t *M, int salt) { for (int i = 0; i < M->nrows; i += 1 + M->nrows / 7) for (int j = 0; j < M->ncols; j += 1 + M->ncols / 9) mzd_write_bit(M, i, j, (i + j + salt) & 1); }
static void mode_lifecycle(void) {
  static const int SZ[][2] = {{1, 64}, {5, 130}, {64, 64}, {33, 200}, {200, 129}, {700, 700}};
  for (int si = 0; si < 6; si++) for (int seq = 0; seq < 7; seq++) {
    int r = SZ[si][0], c = SZ[si][1];
    if (!vx_case_begin("lifecycle|seq=%d|%dx%d", seq, r, c)) continue;
    mzd_t *A = mzd_init(r, c), *B = NULL, *M[20]; touch(A, 1);
    switch (seq) {
    case 0: mzd_free(A); m4ri_mmc_cleanup(); B = mzd_init(r, c); touch(B, 2); if (!mzd_is_zero(B)) { mzd_t *T = mzd_transpose(NULL, B); mzd_free(T); } mzd_free(B); break;
    case 1: mzd_free(A); m4ri_fini(); m4ri_init(); B = mzd_init(r, c); touch(B, 3); { mzd_t *P = mzd_mul(NULL, B, B->nrows == B->ncols ? B : (A = mzd_transpose(NULL, B)), 0); mzd_free(P); if (B->nrows != B->ncols) mzd_free(A); } mzd_free(B); break;
    case 2: mzd_free(A); m4ri_mmc_cleanup(); m4ri_mmc_cleanup(); m4ri_fini(); m4ri_fini(); m4ri_init(); B = mzd_init(r, c); touch(B, 4); mzd_free(B); break;
    case 3: /* live matrix whose block came out of the cache, then a flush while it is alive */
      mzd_free(A); B = mzd_init(r, c); touch(B, 5); m4ri_mmc_cleanup(); A = mzd_init(r, c); touch(A, 6); touch(B, 7); mzd_free(A); mzd_free(B); m4ri_mmc_cleanup(); break;
    case 4: /* more distinct sizes than cache slots, flush, the same sizes again */
      mzd_free(A); for (int i = 0; i < 20; i++) { M[i] = mzd_init(r + i, c); touch(M[i], i); } for (int i = 0; i < 20; i++) mzd_free(M[i]); m4ri_mmc_cleanup();
      for (int i = 0; i < 20; i++) { M[i] = mzd_init(r + i, c); touch(M[i], i + 1); } for (int i = 19; i >= 0; i--) mzd_free(M[i]); break;
    case 5: /* elimination (tables, code book) around a finalise / initialise cycle */
      { rci_t r1 = mzd_echelonize_m4ri(A, 1, 0); m4ri_fini(); m4ri_init(); touch(A, 8); rci_t r2 = mzd_echelonize_m4ri(A, 1, 3); (void)r1; (void)r2; mzd_free(A); } break;
    default: /* flush between a window and its parent's release */
      { mzd_t *W = mzd_init_window(A, 0, 0, A->nrows, A->ncols > 64 ? 64 : A->ncols); m4ri_mmc_cleanup(); touch(W, 9); mzd_free(W); mzd_free(A); m4ri_mmc_cleanup(); B = mzd_init(r, c); touch(B, 1); mzd_free(B); } break;
    }
    vx_input((uint64_t)si * 16 + (uint64_t)seq, 1);
    vx_case_end();
  }
}

static void mode_illdim(void) {
  ARENA = mmap(NULL, ARENA_SZ, PROT_READ | PROT_WRITE, MAP_SHARED | MAP_ANONYMOUS, -1, 0); SNAP = vx_malloc(ARENA_SZ);
  static const int BASES[] = {3, 20, 60, 64, 129};
  for (int id = 0; id < 25; id++) for (int bi = 0; bi < 5; bi++) for (int v = 0; v < 8; v++) {
    int d[6], pl[2], e, f;
    if (!ill_dims(id, v, BASES[bi], d, pl, &e, &f)) continue;
    if (d[0] < 1 || d[1] < 1 || d[2] < 1 || d[3] < 1 || d[4] < 1 || d[5] < 1) continue;
    if (!vx_case_begin("illdim|%s|base=%d|variant=%d|dims=%dx%d,%dx%d,%dx%d|perm=%d,%d", illname[id], BASES[bi], v, d[0], d[1], d[2], d[3], d[4], d[5], pl[0], pl[1])) continue;
    char sig[64]; snprintf(sig, sizeof sig, "illdim|%s", illname[id]);
    arena_used = 0;
    for (int k = 0; k < 3; k++) IM[k] = shared_mat(k, d[2 * k], d[2 * k + 1], 40 + k);
    IP[0] = mzp_init(pl[0] > 0 ? pl[0] : 1); IP[1] = mzp_init(pl[1] > 0 ? pl[1] : 1);
    memcpy(SNAP, ARENA, arena_used);
    illcase q = {id, v, 0, 0, 0, 0, e, f};
    vx_fate ft = vx_fork_call(ill_call, &q, 20);
    if (ft.fate == 0) vx_fail(sig, "returned-normally", "call with incompatible dimensions returned instead of terminating through the error handler");
    else if (ft.fate != 1) vx_fail(sig, "uncontrolled-termination", "fate %d signal %d (m4ri_die entered: %d): %s", ft.fate, ft.sig, ft.die_entered, ft.note);
    if (memcmp(SNAP, ARENA, arena_used) != 0) vx_fail(sig, "operand-touched", "an operand was modified before the error handler ran");
    vx_count("ill_dimensioned_calls", 1);
    vx_input(((uint64_t)id << 32) ^ ((uint64_t)bi << 16) ^ (uint64_t)v ^ 0x11, 1);
    mzp_free(IP[0]); mzp_free(IP[1]);
    for (int k = 0; k < 3; k++) { IM[k]->data = PRIV[k]; mzd_free(IM[k]); }
    vx_case_end();
  }
}

/* block-recursive PLE (reached only with small cache sizes): every routine built on it, on shapes whose rows end exactly at the
   end of the allocation (even word width), over the REC rank-profile family */
static void rec_spec(const rk_spec *s, void *u) {
  (void)u; char desc[160]; rk_str(s, desc, sizeof desc);
  vx_group(); pm *A = NULL;
  static const char *nm[] = {"mzd_ple", "mzd_pluq", "mzd_echelonize_pluq(full=1)", "mzd_echelonize_pluq(full=0)", "mzd_solve_left", "mzd_kernel_left_pluq", "mzd_echelonize"};
  for (int v = 0; v < 7; v++) {
    if (!vx_case_begin("%s|%s", nm[v], desc)) continue;
    if (!A) A = rk_build(s);
    mzd_t *M = mzd_from_pm(A);
    switch (v) {
    case 0: case 1: { mzp_t *P = mzp_init(M->nrows), *Q = mzp_init(M->ncols); if (v) mzd_pluq(M, P, Q, 0); else mzd_ple(M, P, Q, 0); mzp_free(P); mzp_free(Q); break; }
    case 2: mzd_echelonize_pluq(M, 1); break;
    case 3: mzd_echelonize_pluq(M, 0); break;
    case 4: { int rows = M->nrows > M->ncols ? M->nrows : M->ncols; pm *b = pm_pat(rows, 64, (pat){P_PR, 0, 5}); mzd_t *B = mzd_from_pm(b); pm_free(b); (void)mzd_solve_left(M, B, 0, 1); mzd_free(B); break; }
    case 5: { mzd_t *K = mzd_kernel_left_pluq(M, 0); if (K) mzd_free(K); break; }
    case 6: mzd_echelonize(M, 1); break;
    }
    mzd_free(M);
    vx_input(pm_hash(A) ^ ((uint64_t)v << 60), 1);
    vx_case_end();
  }
  if (A) pm_free(A);
}

void prop_enumerate(void) {
  const char *mode = vx_arg("mode", "ops");
  if (!strcmp(mode, "ops")) mode_ops(); else if (!strcmp(mode, "lifecycle")) mode_lifecycle(); else if (!strcmp(mode, "rec")) rk_enumerate(1 << F_REC, 0, 0, rec_spec, NULL); else mode_illdim();
}
int main(int argc, char **argv) { return vx_main(argc, argv); }
