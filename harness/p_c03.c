/* C03: PLE / PLUQ factorisations reconstruct A, reveal rank and column rank profile. */
#include "rankgen.h"
const char *prop_id = "C03";

#include "plecheck.h"

static void on_spec(const rk_spec *s, void *u) {
  (void)u;
  char desc[160]; rk_str(s, desc, sizeof desc);
  vx_group();
  ctx x; memset(&x, 0, sizeof x); int ready = 0;
  int tiny = (s->fam == F_TINY);
  static const int CUTQ[] = {0, 64}, CUTT[] = {0, 64, 128, 256, 1024};
  static const int KRQ[] = {0, 1, 4, 9}, KRT[] = {0, 1, 2, 3, 4, 5, 6, 7, 8, 9}, KRTINY[] = {0, 2};
  for (int v = 0; v < V_N; v++) {
    const int *ps = NULL; int np = 1;
    if (v == V_PLE || v == V_PLUQ) { ps = vx_tier ? CUTT : CUTQ; np = vx_tier ? 5 : 2; if (tiny) np = 1; }
    if (v == V_PLE_RUSSIAN || v == V_PLUQ_RUSSIAN) { if (tiny) { ps = KRTINY; np = 2; } else { ps = vx_tier ? KRT : KRQ; np = vx_tier ? 10 : 4; } }
    for (int pi = 0; pi < np; pi++) {
      int param = ps ? ps[pi] : 0;
      /* junk alphabet for P,Q: all five on the first parameter, rotating otherwise */
      int nj = (pi == 0 && !tiny && (vx_tier || v == V_PLE || v == V_PLUQ_RUSSIAN)) ? 5 : 1;
      for (int ji = 0; ji < nj; ji++) {
        int junk = nj == 5 ? ji : (int)((s->bits + (uint64_t)v + (uint64_t)pi + (uint64_t)s->r) % 5);
        if (!vx_case_begin("%s|p=%d|junk=%d|%s", vname[v], param, junk, desc)) continue;
        if (!ready) {
          x.A = rk_build(s); x.prof = vx_malloc(sizeof(int) * (size_t)(x.A->r + x.A->c + 1));
          pm *t = pm_copy(x.A); x.rank = pm_echelon(t, 0, x.prof); pm_free(t); x.dig = pm_hash(x.A); ready = 1;
        }
        check_one(v, param, junk, &x, desc);
        vx_input(x.dig * 1315423911ULL + (uint64_t)(v * 64 + param) * 2654435761ULL + (uint64_t)junk, x.rank > 0);
        vx_case_end();
      }
    }
  }
  if (ready) { pm_free(x.A); vx_free(x.prof); }
}

void prop_enumerate(void) {
  const char *mode = vx_arg("mode", "tiny");
  if (!strcmp(mode, "tiny")) rk_enumerate(1 << F_TINY, vx_tier ? 16 : 13, 0, on_spec, NULL);
  else if (!strcmp(mode, "lift")) rk_enumerate(1 << F_LIFT, 0, vx_tier ? 10 : 7, on_spec, NULL);
  else if (!strcmp(mode, "struct")) rk_enumerate((1 << F_ECH) | (1 << F_RK) | (1 << F_BND), 0, 0, on_spec, NULL);
  else if (!strcmp(mode, "rec")) rk_enumerate((1 << F_REC) | (1 << F_RECW), 0, 0, on_spec, NULL);
}
int main(int argc, char **argv) { return vx_main(argc, argv); }
