/* C03: PLE / PLUQ factorisations reconstruct A, reveal rank and column rank profile. */
#include "rankgen.h"
const char *prop_id = "C03";

enum { V_PLE, V_PLUQ, V_PLE_NAIVE, V_PLUQ_NAIVE, V_PLE_RUSSIAN, V_PLUQ_RUSSIAN, V_N };
static const char *vname[] = {"mzd_ple", "mzd_pluq", "_mzd_ple_naive", "_mzd_pluq_naive", "_mzd_ple_russian", "_mzd_pluq_russian"};

typedef struct { pm *A; int rank; int *prof; uint64_t dig; } ctx;

static void junk_perm(mzp_t *P, int kind) {
  uint64_t st = 0x5151 + (uint64_t)kind;
  for (int i = 0; i < P->length; i++) {
    switch (kind) {
    case 0: P->values[i] = i; break;
    case 1: P->values[i] = P->length - 1 - i; break;
    case 2: P->values[i] = 0x7fffffff; break;
    case 3: P->values[i] = (rci_t)0xA5A5A5A5; break;
    default: P->values[i] = (rci_t)(vx_rand(&st) % (uint64_t)(P->length + 3)); break;
    }
  }
}

static void check_one(int v, int param, int junk, const ctx *x, const char *desc) {
  char sig[64]; snprintf(sig, sizeof sig, "%s", vname[v]);
  int m = x->A->r, n = x->A->c;
  mzd_t *M = mzd_from_pm(x->A);
  mzp_t *P = mzp_init(m), *Q = mzp_init(n);
  junk_perm(P, junk); junk_perm(Q, (junk + 1) % 5 == 0 ? 4 : junk);
  rci_t r = -1;
  switch (v) {
  case V_PLE: r = mzd_ple(M, P, Q, param); break;
  case V_PLUQ: r = mzd_pluq(M, P, Q, param); break;
  case V_PLE_NAIVE: r = _mzd_ple_naive(M, P, Q); break;
  case V_PLUQ_NAIVE: r = _mzd_pluq_naive(M, P, Q); break;
  case V_PLE_RUSSIAN: r = _mzd_ple_russian(M, P, Q, param); break;
  case V_PLUQ_RUSSIAN: r = _mzd_pluq_russian(M, P, Q, param); break;
  }
  int is_ple = (v == V_PLE || v == V_PLE_NAIVE || v == V_PLE_RUSSIAN);
  int ok = 1;
  if (r != x->rank) { vx_fail(sig, "rank", "%s: returned %d, reference rank %d", desc, r, x->rank); ok = 0; }
  /* LAPACK form */
  for (int i = 0; i < m && ok; i++) if (P->values[i] < i || P->values[i] >= m) { vx_fail(sig, "lapack-form", "%s: P[%d]=%d not in [%d,%d)", desc, i, P->values[i], i, m); ok = 0; }
  for (int i = 0; i < n && ok; i++) if (Q->values[i] < i || Q->values[i] >= n) { vx_fail(sig, "lapack-form", "%s: Q[%d]=%d not in [%d,%d)", desc, i, Q->values[i], i, n); ok = 0; }
  if (ok) {
    for (int i = 0; i < r; i++) if (Q->values[i] != x->prof[i]) { vx_fail(sig, "rank-profile", "%s: Q[%d]=%d but the column rank profile has %d at that position", desc, i, Q->values[i], x->prof[i]); ok = 0; break; }
  }
  int pd = mzd_padding_dirty(M);
  if (pd >= 0) vx_fail(sig, "padding", "%s: non-zero bits beyond the last column in row %d", desc, pd);
  if (ok) {
    pm *S = pm_from_mzd(M);
    pm *L = pm_new(m, r > 0 ? r : 1), *U = pm_new(r > 0 ? r : 1, n);
    L->c = r; U->r = r; /* r may be 0: keep allocations valid */
    int outside = 0, oi = -1, oj = -1, diag = 0;
    /* Stored form (both variants): L = strictly lower part of the first r columns, U-region = rows < r from the diagonal on with a
       unit diagonal.  PLUQ: A = P*L*U*Q.  PLE: the stored rows are E with, for ascending i, columns i and Q[i] swapped in the
       rows >= i (this is what moves column Q[i] of L to column i); undo that on the U-region to obtain E, then A = P*L*E. */
    for (int i = 0; i < m; i++) for (int j = 0; j < n; j++) {
      int b = pm_get(S, i, j);
      if (j < i && j < r) { if (b) pm_set(L, i, j, 1); }
      else if (i < r && j >= i) { if (j == i) { if (!b) diag = 1; else pm_set(U, i, j, 1); } else if (b) pm_set(U, i, j, 1); }
      else if (b) { if (!outside) { oi = i; oj = j; } outside = 1; }
    }
    if (is_ple && r > 0) {
      for (int i = r - 1; i >= 0; i--) pm_swap_cols_rows(U, i, Q->values[i], i, r);
      for (int i = 0; i < r && !outside; i++) for (int j = 0; j < Q->values[i]; j++) if (pm_get(U, i, j)) { vx_fail(sig, "echelon-shape", "%s: row %d of E is non-zero before its pivot column %d", desc, i, Q->values[i]); ok = 0; break; }
    }
    if (outside) { vx_fail(sig, "zero-outside", "%s: entry (%d,%d) outside the L and %s regions is non-zero (rank %d)", desc, oi, oj, is_ple ? "E" : "U", r); ok = 0; }
    if (diag) { vx_fail(sig, "unit-diagonal", "%s: a pivot entry of the first %d rows is zero", desc, r); ok = 0; }
    if (ok && r > 0) {
      for (int i = 0; i < r; i++) pm_set(L, i, i, 1);
      pm *X = pm_mul(L, U);
      for (int i = m - 1; i >= 0; i--) pm_swap_rows(X, i, P->values[i]);
      if (!is_ple) for (int i = n - 1; i >= 0; i--) pm_swap_cols(X, i, Q->values[i]);
      if (!pm_eq(X, x->A)) vx_fail(sig, "reconstruction", "%s: P*L*%s%s differs from the original matrix (rank %d)", desc, is_ple ? "E" : "U", is_ple ? "" : "*Q", r);
      pm_free(X);
    } else if (ok && r == 0) {
      if (!pm_is_zero(x->A)) vx_fail(sig, "reconstruction", "%s: rank 0 reported for a non-zero matrix", desc);
    }
    L->c = r > 0 ? r : 1; U->r = r > 0 ? r : 1;
    pm_free(L); pm_free(U); pm_free(S);
  }
  mzp_free(P); mzp_free(Q); mzd_free(M);
}

static void on_spec(const rk_spec *s, void *u) {
  (void)u;
  char desc[160]; rk_str(s, desc, sizeof desc);
  vx_group();
  ctx x; memset(&x, 0, sizeof x); int ready = 0;
  int tiny = (s->fam == F_TINY);
  static const int CUTQ[] = {0, 64}, CUTT[] = {0, 64, 128, 256, 1024};
  static const int KRQ[] = {0, 1, 4, 9}, KRT[] = {0, 1, 2, 3, 4, 5, 6, 7, 8, 9}, KRTINY[] = {0, 2};
  for (int v = 0; v < V_N; v++) {
    const int *ps = NULL; int np = 1;
    if (v == V_PLE || v == V_PLUQ) { ps = vx_tier ? CUTT : CUTQ; np = vx_tier ? 5 : 2; if (tiny) np = 1; }
    if (v == V_PLE_RUSSIAN || v == V_PLUQ_RUSSIAN) { if (tiny) { ps = KRTINY; np = 2; } else { ps = vx_tier ? KRT : KRQ; np = vx_tier ? 10 : 4; } }
    for (int pi = 0; pi < np; pi++) {
      int param = ps ? ps[pi] : 0;
      /* junk alphabet for P,Q: all five on the first parameter, rotating otherwise */
      int nj = (pi == 0 && !tiny && (vx_tier || v == V_PLE || v == V_PLUQ_RUSSIAN)) ? 5 : 1;
      for (int ji = 0; ji < nj; ji++) {
        int junk = nj == 5 ? ji : (int)((s->bits + (uint64_t)v + (uint64_t)pi + (uint64_t)s->r) % 5);
        if (!vx_case_begin("%s|p=%d|junk=%d|%s", vname[v], param, junk, desc)) continue;
        if (!ready) {
          x.A = rk_build(s); x.prof = vx_malloc(sizeof(int) * (size_t)(x.A->r + x.A->c + 1));
          pm *t = pm_copy(x.A); x.rank = pm_echelon(t, 0, x.prof); pm_free(t); x.dig = pm_hash(x.A); ready = 1;
        }
        check_one(v, param, junk, &x, desc);
        vx_input(x.dig * 1315423911ULL + (uint64_t)(v * 64 + param) * 2654435761ULL + (uint64_t)junk, x.rank > 0);
        vx_case_end();
      }
    }
  }
  if (ready) { pm_free(x.A); vx_free(x.prof); }
}

void prop_enumerate(void) {
  const char *mode = vx_arg("mode", "tiny");
  if (!strcmp(mode, "tiny")) rk_enumerate(1 << F_TINY, vx_tier ? 16 : 13, 0, on_spec, NULL);
  else if (!strcmp(mode, "lift")) rk_enumerate(1 << F_LIFT, 0, vx_tier ? 12 : 7, on_spec, NULL);
  else if (!strcmp(mode, "struct")) rk_enumerate((1 << F_ECH) | (1 << F_RK) | (1 << F_BND), 0, 0, on_spec, NULL);
  else if (!strcmp(mode, "rec")) rk_enumerate(1 << F_REC, 0, 0, on_spec, NULL);
}
int main(int argc, char **argv) { return vx_main(argc, argv); }
