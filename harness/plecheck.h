/* PLE / PLUQ reconstruction oracle shared by C03 and C12. */
#ifndef PLECHECK_H
#define PLECHECK_H
#include "vx.h"
enum { V_PLE, V_PLUQ, V_PLE_NAIVE, V_PLUQ_NAIVE, V_PLE_RUSSIAN, V_PLUQ_RUSSIAN, V_N };
static const char *vname[] = {"mzd_ple", "mzd_pluq", "_mzd_ple_naive", "_mzd_pluq_naive", "_mzd_ple_russian", "_mzd_pluq_russian"};
typedef struct { pm *A; int rank; int *prof; uint64_t dig; } ctx;
static void junk_perm(mzp_t *P, int kind) {
  uint64_t st = 0x5151 + (uint64_t)kind;
  for (int i = 0; i < P->length; i++) {
    switch (kind) {
    case 0: P->values[i] = i; break;
    case 1: P->values[i] = P->length - 1 - i; break;
    case 2: P->values[i] = 0x7fffffff; break;
    case 3: P->values[i] = (rci_t)0xA5A5A5A5; break;
    default: P->values[i] = (rci_t)(vx_rand(&st) % (uint64_t)(P->length + 3)); break;
    }
  }
}

static void check_one(int v, int param, int junk, const ctx *x, const char *desc) {
  char sig[64]; snprintf(sig, sizeof sig, "%s", vname[v]);
  int m = x->A->r, n = x->A->c;
  mzd_t *M = mzd_from_pm(x->A);
  mzp_t *P = mzp_init(m), *Q = mzp_init(n);
  junk_perm(P, junk); junk_perm(Q, (junk + 1) % 5 == 0 ? 4 : junk);
  rci_t r = -1;
  switch (v) {
  case V_PLE: r = mzd_ple(M, P, Q, param); break;
  case V_PLUQ: r = mzd_pluq(M, P, Q, param); break;
  case V_PLE_NAIVE: r = _mzd_ple_naive(M, P, Q); break;
  case V_PLUQ_NAIVE: r = _mzd_pluq_naive(M, P, Q); break;
  case V_PLE_RUSSIAN: r = _mzd_ple_russian(M, P, Q, param); break;
  case V_PLUQ_RUSSIAN: r = _mzd_pluq_russian(M, P, Q, param); break;
  }
  int is_ple = (v == V_PLE || v == V_PLE_NAIVE || v == V_PLE_RUSSIAN);
  int ok = 1;
  if (r != x->rank) { vx_fail(sig, "rank", "%s: returned %d, reference rank %d", desc, r, x->rank); ok = 0; }
  /* LAPACK form */
  for (int i = 0; i < m && ok; i++) if (P->values[i] < i || P->values[i] >= m) { vx_fail(sig, "lapack-form", "%s: P[%d]=%d not in [%d,%d)", desc, i, P->values[i], i, m); ok = 0; }
  for (int i = 0; i < n && ok; i++) if (Q->values[i] < i || Q->values[i] >= n) { vx_fail(sig, "lapack-form", "%s: Q[%d]=%d not in [%d,%d)", desc, i, Q->values[i], i, n); ok = 0; }
  if (ok) {
    for (int i = 0; i < r; i++) if (Q->values[i] != x->prof[i]) { vx_fail(sig, "rank-profile", "%s: Q[%d]=%d but the column rank profile has %d at that position", desc, i, Q->values[i], x->prof[i]); ok = 0; break; }
  }
  int pd = mzd_padding_dirty(M);
  if (pd >= 0) vx_fail(sig, "padding", "%s: non-zero bits beyond the last column in row %d", desc, pd);
  if (ok) {
    pm *S = pm_from_mzd(M);
    pm *L = pm_new(m, r > 0 ? r : 1), *U = pm_new(r > 0 ? r : 1, n);
    L->c = r; U->r = r; /* r may be 0: keep allocations valid */
    int outside = 0, oi = -1, oj = -1, diag = 0;
    /* Stored form (both variants): L = strictly lower part of the first r columns, U-region = rows < r from the diagonal on with a
       unit diagonal.  PLUQ: A = P*L*U*Q.  PLE: the stored rows are E with, for ascending i, columns i and Q[i] swapped in the
       rows >= i (this is what moves column Q[i] of L to column i); undo that on the U-region to obtain E, then A = P*L*E. */
    for (int i = 0; i < m; i++) for (int j = 0; j < n; j++) {
      int b = pm_get(S, i, j);
      if (j < i && j < r) { if (b) pm_set(L, i, j, 1); }
      else if (i < r && j >= i) { if (j == i) { if (!b) diag = 1; else pm_set(U, i, j, 1); } else if (b) pm_set(U, i, j, 1); }
      else if (b) { if (!outside) { oi = i; oj = j; } outside = 1; }
    }
    if (is_ple && r > 0) {
      for (int i = r - 1; i >= 0; i--) pm_swap_cols_rows(U, i, Q->values[i], i, r);
      for (int i = 0; i < r && !outside; i++) for (int j = 0; j < Q->values[i]; j++) if (pm_get(U, i, j)) { vx_fail(sig, "echelon-shape", "%s: row %d of E is non-zero before its pivot column %d", desc, i, Q->values[i]); ok = 0; break; }
    }
    if (outside) { vx_fail(sig, "zero-outside", "%s: entry (%d,%d) outside the L and %s regions is non-zero (rank %d)", desc, oi, oj, is_ple ? "E" : "U", r); ok = 0; }
    if (diag) { vx_fail(sig, "unit-diagonal", "%s: a pivot entry of the first %d rows is zero", desc, r); ok = 0; }
    if (ok && r > 0) {
      for (int i = 0; i < r; i++) pm_set(L, i, i, 1);
      pm *X = pm_mul(L, U);
      for (int i = m - 1; i >= 0; i--) pm_swap_rows(X, i, P->values[i]);
      if (!is_ple) for (int i = n - 1; i >= 0; i--) pm_swap_cols(X, i, Q->values[i]);
      if (!pm_eq(X, x->A)) vx_fail(sig, "reconstruction", "%s: P*L*%s%s differs from the original matrix (rank %d)", desc, is_ple ? "E" : "U", is_ple ? "" : "*Q", r);
      pm_free(X);
    } else if (ok && r == 0) {
      if (!pm_is_zero(x->A)) vx_fail(sig, "reconstruction", "%s: rank 0 reported for a non-zero matrix", desc);
    }
    L->c = r > 0 ? r : 1; U->r = r > 0 ? r : 1;
    pm_free(L); pm_free(U); pm_free(S);
  }
  mzp_free(P); mzp_free(Q); mzd_free(M);
}

#endif
