/* C12: results do not depend on build configuration or tuning parameters.
 * One fixed case list (identical in every build); every result is compared with the reference model, every k / cutoff of a
 * case must give the same digest, and the sum of all (case, digest) hashes is exported so that the driver compares builds. */
#include "plecheck.h"
#include "rankgen.h"
const char *prop_id = "C12";

static uint64_t H(uint64_t a, uint64_t b) { a ^= b + 0x9e3779b97f4a7c15ULL + (a << 6) + (a >> 2); a *= 0xff51afd7ed558ccdULL; a ^= a >> 33; return a; }
static uint64_t hstr(const char *s) { uint64_t h = 1469598103934665603ULL; for (; *s; s++) { h ^= (unsigned char)*s; h *= 1099511628211ULL; } return h; }
static void record(const char *caseid, uint64_t digest) { vx_count("table_sum", H(hstr(caseid), digest)); vx_count("table_entries", 1); vx_count("evals", 1); }
static uint64_t mzd_dig(const mzd_t *M) { pm *p = pm_from_mzd(M); uint64_t h = pm_hash(p); pm_free(p); return h; }

static pm *input(int r, int c, int kind, int salt) {
  if (kind == 0) return pm_pat(r, c, (pat){P_PR, 0, salt});
  if (kind == 1) { int rk = (r < c ? r : c) / 2 + 1; pm *L = pm_pat(r, rk, (pat){P_PR, 0, salt}), *R = pm_pat(rk, c, (pat){P_PR, 0, salt + 1}), *A = pm_mul(L, R); pm_free(L); pm_free(R); return A; }
  /* block structure: zero column blocks crossing words */
  pm *A = pm_pat(r, c, (pat){P_PR, 1, salt}); for (int j = 0; j < c; j++) if ((j / 37) % 2) for (int i = 0; i < r; i++) pm_set(A, i, j, 0); return A;
}

static const int CUTS[] = {0, 64, 128, 256, 512, 1024, 2048};
static const int KMUL[] = {0, 2, 3, 4, 5, 6, 7, 8};

static void mul_cases(void) {
  static const int SQ[][3] = {{63, 64, 65}, {127, 128, 129}, {255, 256, 257}, {257, 255, 256}, {513, 511, 512}, {1025, 200, 1023}, {200, 1025, 64}, {1024, 1024, 53}}, ST[][3] = {{63, 64, 65}, {127, 128, 129}, {255, 256, 257}, {257, 255, 256}, {511, 513, 512}, {513, 512, 511}, {1025, 1023, 1024}, {1023, 1025, 200}, {2049, 300, 2047}, {300, 2049, 64}, {2048, 64, 53}, {1449, 1449, 65}};
  int n = vx_tier ? 12 : 8;
  for (int i = 0; i < n; i++) {
    const int *d = vx_tier ? ST[i] : SQ[i];
    vx_group();
    pm *A = NULL, *B = NULL, *AB = NULL, *C0 = NULL, *C0AB = NULL; uint64_t want = 0, wantacc = 0;
    for (int route = 0; route < 5; route++) {
      int np = route == 0 ? 7 : route == 1 ? 8 : route == 2 ? 1 : route == 3 ? 7 : 8;
      for (int pi = 0; pi < np; pi++) {
        int param = (route == 0 || route == 3) ? CUTS[pi] : (route == 1 || route == 4) ? KMUL[pi] : 0;
        static const char *rn[] = {"mzd_mul", "mzd_mul_m4rm", "mzd_mul_naive", "mzd_addmul", "mzd_addmul_m4rm"};
        char id[128]; snprintf(id, sizeof id, "%s|%dx%dx%d", route < 3 ? "product" : "accumulate", d[0], d[1], d[2]);
        if (!vx_case_begin("%s|p=%d|%dx%dx%d", rn[route], param, d[0], d[1], d[2])) continue;
        if (!A) { A = input(d[0], d[1], 0, 1); B = input(d[1], d[2], 0, 2); AB = pm_mul(A, B); C0 = input(d[0], d[2], 0, 3); C0AB = pm_add(C0, AB); want = pm_hash(AB); wantacc = pm_hash(C0AB); }
        mzd_t *Az = mzd_from_pm(A), *Bz = mzd_from_pm(B), *Cz = route >= 3 ? mzd_from_pm(C0) : NULL, *R = NULL;
        switch (route) { case 0: R = mzd_mul(NULL, Az, Bz, param); break; case 1: R = mzd_mul_m4rm(NULL, Az, Bz, param); break; case 2: R = mzd_mul_naive(NULL, Az, Bz); break; case 3: R = mzd_addmul(Cz, Az, Bz, param); break; case 4: R = mzd_addmul_m4rm(Cz, Az, Bz, param); break; }
        uint64_t g = mzd_dig(R);
        if (g != (route >= 3 ? wantacc : want)) vx_fail(rn[route], "differs-from-reference", "%dx%dx%d parameter %d: result differs from the reference product (hence from other configurations / parameters)", d[0], d[1], d[2], param);
        record(id, g);
        vx_input(want ^ ((uint64_t)route << 60) ^ ((uint64_t)(param + 1) << 40), 1);
        mzd_free(R); mzd_free(Az); mzd_free(Bz);
        vx_case_end();
      }
    }
    pm_free(A); pm_free(B); pm_free(AB); pm_free(C0); pm_free(C0AB);
  }
}

static void ech_cases(void) {
  static const int SQ[][2] = {{64, 64}, {129, 257}, {257, 129}, {513, 300}, {300, 1025}, {420, 1300}}, ST[][2] = {{64, 64}, {65, 63}, {129, 257}, {257, 129}, {513, 513}, {1025, 300}, {300, 1025}, {420, 1300}, {1449, 200}, {2049, 130}};
  int n = vx_tier ? 10 : 6;
  for (int i = 0; i < n; i++) for (int kind = 0; kind < 3; kind++) {
    const int *d = vx_tier ? ST[i] : SQ[i];
    vx_group();
    pm *A = NULL, *R = NULL; int rank = 0; ctx x; memset(&x, 0, sizeof x);
    /* algorithms: 0 m4ri(k) 1 pluq 2 hybrid 3 naive 4 mzd_pluq(cutoff) reconstruction 5 kernel-free rank via mzd_ple */
    for (int alg = 0; alg < 6; alg++) {
      int np = alg == 0 ? 11 : alg == 4 ? 4 : alg == 5 ? 9 : 1;
      if (alg == 3 && d[0] * d[1] > 200000) continue;
      for (int pi = 0; pi < np; pi++) {
        int param = alg == 0 ? pi : alg == 4 ? CUTS[pi] : alg == 5 ? pi : 0;
        static const char *an[] = {"mzd_echelonize_m4ri", "mzd_echelonize_pluq", "mzd_echelonize", "mzd_echelonize_naive", "mzd_pluq", "mzd_top_echelonize_m4ri"};
        if (!vx_case_begin("%s|p=%d|%dx%d|kind=%d", an[alg], param, d[0], d[1], kind)) continue;
        if (!A) { A = input(d[0], d[1], kind, 10 + i); R = pm_rref(A); x.A = A; x.prof = vx_malloc(sizeof(int) * (size_t)(d[0] + d[1] + 1)); pm *t = pm_copy(A); rank = x.rank = pm_echelon(t, 0, x.prof); pm_free(t); }
        char id[96]; snprintf(id, sizeof id, "rref|%dx%d|kind=%d", d[0], d[1], kind);
        char desc[96]; snprintf(desc, sizeof desc, "%dx%d kind %d parameter %d", d[0], d[1], kind, param);
        if (alg == 5) { /* top reduction with every k of a (non-reduced) row echelon form computed by M4RI with the automatic k */
          mzd_t *M = mzd_from_pm(A); rci_t r = mzd_echelonize_m4ri(M, 0, 0); rci_t r2 = r; mzd_top_echelonize_m4ri(M, param); uint64_t g = mzd_dig(M);
          if (r != rank || r2 != rank) vx_fail(an[alg], "rank-differs-from-reference", "%s: ranks %d / %d, reference %d", desc, r, r2, rank);
          if (g != pm_hash(R)) vx_fail(an[alg], "differs-from-reference", "%s: top reduction does not give the reduced echelon form", desc);
          record(id, H(g, (uint64_t)r)); mzd_free(M);
        } else if (alg < 4) {
          mzd_t *M = mzd_from_pm(A); rci_t r = -1;
          switch (alg) { case 0: r = mzd_echelonize_m4ri(M, 1, param); break; case 1: r = mzd_echelonize_pluq(M, 1); break; case 2: r = mzd_echelonize(M, 1); break; case 3: r = mzd_echelonize_naive(M, 1); break; }
          if (r != rank) vx_fail(an[alg], "rank-differs-from-reference", "%s: rank %d, reference %d", desc, r, rank);
          uint64_t g = mzd_dig(M);
          if (g != pm_hash(R)) vx_fail(an[alg], "differs-from-reference", "%s: reduced echelon form differs from the reference", desc);
          record(id, H(g, (uint64_t)r));
          mzd_free(M);
        } else {
          check_one(V_PLUQ, param, 4, &x, desc); /* P*L*U*Q == A, rank, profile */
          record(id, H(pm_hash(R), (uint64_t)rank)); /* the reconstructed product is A itself when the check passes */
        }
        vx_input(pm_hash(A) ^ ((uint64_t)alg << 60) ^ ((uint64_t)param << 44), rank > 0);
        vx_case_end();
      }
    }
    if (A) { pm_free(A); pm_free(R); vx_free(x.prof); }
  }
}

static void inv_trsm_solve_cases(void) {
  static const int NQ[] = {64, 65, 257, 513, 1025}, NT[] = {64, 65, 129, 257, 363, 513, 1025, 1500, 1800};
  int nn = vx_tier ? 9 : 5;
  for (int i = 0; i < nn; i++) { int n = vx_tier ? NT[i] : NQ[i];
    vx_group();
    pm *A = NULL, *Ainv = NULL;
    for (int k = 0; k <= 10; k++) {
      if (!vx_case_begin("mzd_inv_m4ri|k=%d|n=%d", k, n)) continue;
      if (!A) { A = pm_dense_invertible(n, 2); Ainv = pm_inverse(A); }
      mzd_t *Az = mzd_from_pm(A), *B = mzd_inv_m4ri(NULL, Az, k);
      uint64_t g = mzd_dig(B);
      if (g != pm_hash(Ainv)) vx_fail("mzd_inv_m4ri", "differs-from-reference", "n=%d k=%d: inverse differs from the reference", n, k);
      char id[64]; snprintf(id, sizeof id, "inverse|n=%d", n); record(id, g);
      vx_input(pm_hash(A) ^ ((uint64_t)k << 50), 1);
      mzd_free(B); mzd_free(Az);
      vx_case_end();
    }
    if (A) { pm_free(A); pm_free(Ainv); }
    /* triangular inversion and the four solves */
    vx_group();
    pm *U = NULL, *L = NULL, *Bl = NULL, *Br = NULL, *Ui = NULL, *Li = NULL, *XUL = NULL, *XLL = NULL, *XUR = NULL, *XLR = NULL;
    for (int v = 0; v < 5; v++) for (int ci = 0; ci < (v == 4 ? 1 : 5); ci++) {
      static const char *tn[] = {"mzd_trsm_upper_left", "mzd_trsm_lower_left", "mzd_trsm_upper_right", "mzd_trsm_lower_right", "mzd_trtri_upper"};
      if (!vx_case_begin("%s|cutoff=%d|n=%d", tn[v], CUTS[ci], n)) continue;
      if (!U) { U = pm_unit_upper(n, 5, 0); L = pm_unit_lower(n, 6, 0); Bl = pm_pat(n, 65, (pat){P_PR, 0, 7}); Br = pm_pat(65, n, (pat){P_PR, 0, 8}); Ui = pm_inverse(U); Li = pm_inverse(L);
        XUL = pm_mul(Ui, Bl); XLL = pm_mul(Li, Bl); XUR = pm_mul(Br, Ui); XLR = pm_mul(Br, Li); }
      mzd_t *Tz = mzd_from_pm(v == 1 || v == 3 ? L : U), *Bz = mzd_from_pm(v < 2 ? Bl : Br); uint64_t g, want;
      switch (v) { case 0: mzd_trsm_upper_left(Tz, Bz, CUTS[ci]); break; case 1: mzd_trsm_lower_left(Tz, Bz, CUTS[ci]); break; case 2: mzd_trsm_upper_right(Tz, Bz, CUTS[ci]); break; case 3: mzd_trsm_lower_right(Tz, Bz, CUTS[ci]); break; case 4: mzd_trtri_upper(Tz); break; }
      if (v == 4) { g = mzd_dig(Tz); want = pm_hash(Ui); } else { g = mzd_dig(Bz); want = pm_hash(v == 0 ? XUL : v == 1 ? XLL : v == 2 ? XUR : XLR); }
      if (g != want) vx_fail(tn[v], "differs-from-reference", "n=%d cutoff=%d: result differs from the reference", n, CUTS[ci]);
      char id[64]; snprintf(id, sizeof id, "%s|n=%d", tn[v], n); record(id, g);
      vx_input(pm_hash(U) ^ ((uint64_t)v << 56) ^ ((uint64_t)ci << 48), 1);
      mzd_free(Tz); mzd_free(Bz);
      vx_case_end();
    }
    if (U) { pm_free(U); pm_free(L); pm_free(Bl); pm_free(Br); pm_free(Ui); pm_free(Li); pm_free(XUL); pm_free(XLL); pm_free(XUR); pm_free(XLR); }
  }
  /* solving: verdict and A*X = B */
  static const int SS[][2] = {{257, 257}, {300, 513}, {513, 300}, {129, 129}};
  for (int i = 0; i < 4; i++) for (int cons = 0; cons < 2; cons++) for (int ci = 0; ci < 4; ci++) {
    int m = SS[i][0], n = SS[i][1], rows = m > n ? m : n;
    if (!vx_case_begin("mzd_solve_left|cutoff=%d|%dx%d|consistent=%d", CUTS[ci], m, n, cons)) continue;
    pm *A = input(m, n, 1, 20 + i), *X0 = pm_pat(n, 33, (pat){P_PR, 0, 9}), *AX = pm_mul(A, X0), *B = pm_new(rows, 33);
    memcpy(B->d, AX->d, (size_t)m * AX->w * 8);
    if (!cons) pm_flip(B, m / 2, 3), pm_flip(B, m - 1, 0);
    pm *Ap = pm_new(rows, n); memcpy(Ap->d, A->d, (size_t)m * A->w * 8); int solv = pm_solvable(Ap, B);
    mzd_t *Az = mzd_from_pm(A), *Bz = mzd_from_pm(B);
    int ret = mzd_solve_left(Az, Bz, CUTS[ci], 1);
    if ((ret == 0) != (solv != 0)) vx_fail("mzd_solve_left", "verdict-differs-from-reference", "%dx%d cutoff %d: returned %d, reference solvable=%d", m, n, CUTS[ci], ret, solv);
    uint64_t g = (uint64_t)(ret == 0);
    if (ret == 0 && solv) { pm *R = pm_from_mzd(Bz), *X = pm_sub(R, 0, 0, n, 33), *AX2 = pm_mul(A, X), *B0 = pm_sub(B, 0, 0, m, 33); if (!pm_eq(AX2, B0)) vx_fail("mzd_solve_left", "differs-from-reference", "%dx%d cutoff %d: A*X != B", m, n, CUTS[ci]); g = H(g, pm_hash(AX2)); pm_free(R); pm_free(X); pm_free(AX2); pm_free(B0); }
    char id[64]; snprintf(id, sizeof id, "solve|%dx%d|cons=%d", m, n, cons); record(id, g);
    vx_input(pm_hash(A) ^ pm_hash(B) ^ ((uint64_t)ci << 50), 1);
    mzd_free(Az); mzd_free(Bz); pm_free(A); pm_free(X0); pm_free(AX); pm_free(B); pm_free(Ap);
    vx_case_end();
  }
}

/* rank profiles that make the block-recursive PLE work (left half rank deficient, second block not empty, rows below the rank):
   FIXED shapes just above the recursion threshold of the smallest cache configuration, so that small-L3 builds recurse and
   large-L3 builds do not - factor products, echelon forms and solvability verdicts must agree between them */
static void rec_cases(void) {
  static const int SH[][3] = {{4100, 128, 64}, {2734, 192, 128}, {2052, 200, 128}, {1369, 321, 192}};
  static const int R1[] = {0, 1, 63, 64}, R2[] = {1, 64, 127};
  for (int si = 0; si < (vx_tier ? 4 : 3); si++) for (int a = 0; a < 4; a++) for (int b = 0; b < 3; b++) for (int place = 1; place < 3; place++) {
    int nr = SH[si][0], nc = SH[si][1], n1 = SH[si][2], r1 = R1[a], r2 = R2[b];
    if (r1 > n1 || r2 > nc - n1) continue;
    if (!vx_tier && ((a + b + place + si) % 2)) continue;
    rk_spec sp; memset(&sp, 0, sizeof sp); sp.fam = F_REC; sp.r = nr; sp.c = nc; sp.aux = n1; sp.b = r1; sp.J = r2; sp.dens = place;
    char nm[96]; rk_str(&sp, nm, sizeof nm);
    vx_group();
    pm *A = NULL, *R = NULL; ctx x; memset(&x, 0, sizeof x);
    for (int alg = 0; alg < 4; alg++) {
      static const char *an[] = {"mzd_pluq", "mzd_ple", "mzd_echelonize_pluq", "mzd_solve_left"};
      if (!vx_case_begin("%s|%s", an[alg], nm)) continue;
      if (!A) { A = rk_build(&sp); R = pm_rref(A); x.A = A; x.prof = vx_malloc(sizeof(int) * (size_t)(nr + nc + 1)); pm *t = pm_copy(A); x.rank = pm_echelon(t, 0, x.prof); pm_free(t); }
      char id[128]; snprintf(id, sizeof id, "rec|%s|%s", an[alg], nm);
      if (alg < 2) { check_one(alg == 0 ? V_PLUQ : V_PLE, 0, alg, &x, nm); record(id, H(pm_hash(R), (uint64_t)x.rank)); }
      else if (alg == 2) { mzd_t *M = mzd_from_pm(A); rci_t r = mzd_echelonize_pluq(M, 1); uint64_t g = mzd_dig(M);
        if (r != x.rank) vx_fail(an[alg], "rank-differs-from-reference", "%s: rank %d, reference %d", nm, r, x.rank);
        if (g != pm_hash(R)) vx_fail(an[alg], "differs-from-reference", "%s: reduced echelon form differs from the reference", nm);
        record(id, H(g, (uint64_t)r)); mzd_free(M); }
      else { /* consistent system B = A*X0 (padded to max(m,n) rows) */
        pm *X0 = pm_pat(nc, 3, (pat){P_PR, 0, 9}), *AX = pm_mul(A, X0); int rows = nr > nc ? nr : nc; pm *B = pm_new(rows, 3); memcpy(B->d, AX->d, (size_t)nr * AX->w * 8);
        mzd_t *Az = mzd_from_pm(A), *Bz = mzd_from_pm(B); int ret = mzd_solve_left(Az, Bz, 0, 1);
        if (ret != 0) vx_fail(an[alg], "verdict-differs-from-reference", "%s: returned %d for a consistent system", nm, ret);
        else { pm *G = pm_from_mzd(Bz), *X = pm_sub(G, 0, 0, nc, 3), *AX2 = pm_mul(A, X); if (!pm_eq(AX2, AX)) vx_fail(an[alg], "differs-from-reference", "%s: A*X != B", nm); pm_free(G); pm_free(X); pm_free(AX2); }
        record(id, (uint64_t)(ret == 0)); mzd_free(Az); mzd_free(Bz); pm_free(X0); pm_free(AX); pm_free(B); }
      vx_input(pm_hash(A) ^ ((uint64_t)alg << 60), x.rank > 0);
      vx_case_end();
    }
    if (A) { pm_free(A); pm_free(R); vx_free(x.prof); }
  }
}

void prop_enumerate(void) { mul_cases(); ech_cases(); inv_trsm_solve_cases(); rec_cases(); }
int main(int argc, char **argv) { return vx_main(argc, argv); }
