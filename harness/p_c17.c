/* C17: observers agree with the abstract matrix: equal, cmp, is_zero, find_pivot, first_zero_row, read_bit. */
#include "vx.h"
const char *prop_id = "C17";

static int sgn(int x) { return x > 0 ? 1 : x < 0 ? -1 : 0; }
/* placement alphabet for views: 0 = owned, 1 = window (row offset 1, word offset 1, trailing word, ones outside), 2 = window whose last word
   is the parent's last word but with rows around (PR outside), 3 = window at word offset 0 with trailing words (ones outside) */
static vwin place(const pm *M, int pl) {
  switch (pl) {
  case 0: return vw_make(M, 0, 0, 0, 0, 0, 0);
  case 1: return vw_make(M, 1, 1, 1, 1, 2, 1);
  case 2: return vw_make(M, 1, 2, 2, 0, 1, 2);
  case 3: return vw_make(M, 1, 0, 0, 2, 0, 1);
  default: return vw_make(M, 1, 0, 0, -1, 0, 1); /* 4: view from column 0 whose parent has the same word width but more columns (ones there) */
  }
}

/* one-bit-apart pairs: equal/cmp/is_zero */
static void mode_pairs(void) {
  static const int RS[] = {1, 2, 5};
  int cols[160], nc = 0; for (int c = 1; c <= 130; c++) cols[nc++] = c; cols[nc++] = 191; cols[nc++] = 192; cols[nc++] = 193; cols[nc++] = 257;
  for (int ri = 0; ri < 3; ri++) for (int ci = 0; ci < nc; ci++) for (int base = 0; base < 3; base++) for (int pl = 0; pl < 5; pl++) for (int pl2 = 0; pl2 < 5; pl2++) {
    int r = RS[ri], c = cols[ci];
    /* every ordered pair of placements on one row count, a rotating subset on the others */
    if (ri != 0 && pl2 != (pl == 0 ? 0 : (pl % 4) + 1) && !(vx_tier && ri == 2)) continue;
    if (!vx_case_begin("pairs|%dx%d|base=%d|placement=%d,%d", r, c, base, pl, pl2)) continue;
    pm *A = pm_pat(r, c, base == 0 ? (pat){P_Z, 0, 0} : base == 1 ? (pat){P_O, 0, 0} : (pat){P_PR, 0, 3});
    vwin wa = place(A, pl), wb = place(A, pl2);
    uint64_t ne = 0; char sig[64];
    /* equal matrices */
    if (!mzd_equal(wa.view, wb.view)) vx_fail("mzd_equal", "equal-matrices", "%dx%d base %d placement %d: equal matrices reported different", r, c, base, pl);
    if (mzd_cmp(wa.view, wb.view) != 0) vx_fail("mzd_cmp", "equal-matrices", "%dx%d base %d placement %d: cmp != 0 for equal matrices", r, c, base, pl);
    if ((mzd_is_zero(wa.view) != 0) != pm_is_zero(A)) vx_fail("mzd_is_zero", "zero-test", "%dx%d base %d placement %d", r, c, base, pl);
    for (int i = 0; i < r; i++) for (int j = 0; j < c; j++) {
      /* flip (i,j) in B (through the raw word, independent of the library accessors) */
      uint64_t *w = (uint64_t *)wb.view->data + (size_t)i * wb.view->rowstride + (j >> 6); *w ^= 1ULL << (j & 63);
      ne++;
      snprintf(sig, sizeof sig, "mzd_equal");
      if (mzd_equal(wa.view, wb.view) || mzd_equal(wb.view, wa.view)) { vx_fail(sig, "one-bit-apart", "%dx%d base %d placement %d: matrices differing only at (%d,%d) reported equal", r, c, base, pl, i, j); *w ^= 1ULL << (j & 63); goto done; }
      int c1 = mzd_cmp(wa.view, wb.view), c2 = mzd_cmp(wb.view, wa.view);
      if (c1 == 0 || c2 == 0) { vx_fail("mzd_cmp", "one-bit-apart", "%dx%d base %d placement %d: cmp == 0 for matrices differing at (%d,%d)", r, c, base, pl, i, j); *w ^= 1ULL << (j & 63); goto done; }
      if (sgn(c1) != -sgn(c2)) { vx_fail("mzd_cmp", "antisymmetry", "%dx%d base %d placement %d: cmp(A,B)=%d cmp(B,A)=%d for a difference at (%d,%d)", r, c, base, pl, c1, c2, i, j); *w ^= 1ULL << (j & 63); goto done; }
      if (base == 0 && mzd_is_zero(wb.view)) { vx_fail("mzd_is_zero", "single-entry", "%dx%d placement %d: matrix with a single one at (%d,%d) reported zero", r, c, pl, i, j); *w ^= 1ULL << (j & 63); goto done; }
      if (base == 0) { /* first_zero_row of a single-entry matrix */
        rci_t z = mzd_first_zero_row(wb.view);
        if (z != i + 1) { vx_fail("mzd_first_zero_row", "single-entry", "%dx%d placement %d: single one at (%d,%d), returned %d expected %d", r, c, pl, i, j, z, i + 1); *w ^= 1ULL << (j & 63); goto done; }
      }
      if (mzd_read_bit(wb.view, i, j) != !pm_get(A, i, j)) { vx_fail("mzd_read_bit", "read", "%dx%d placement %d (%d,%d)", r, c, pl, i, j); *w ^= 1ULL << (j & 63); goto done; }
      *w ^= 1ULL << (j & 63);
    }
    { rci_t z = mzd_first_zero_row(wa.view); int ez = 0; for (int i = 0; i < r; i++) for (int j = 0; j < c; j++) if (pm_get(A, i, j)) ez = i + 1;
      if (z != ez) vx_fail("mzd_first_zero_row", "zero-rows", "%dx%d base %d placement %d: returned %d expected %d", r, c, base, pl, z, ez); }
  done:
    vx_count("evals", ne * 6);
    vx_input(pm_hash(A) ^ ((uint64_t)pl << 60), 1);
    vw_free(&wa); vw_free(&wb); pm_free(A);
    vx_case_end();
  }
  /* dimension mismatch is "not equal" */
  if (vx_case_begin("pairs|dimension-mismatch")) {
    mzd_t *A = mzd_init(3, 5), *B = mzd_init(3, 6), *C = mzd_init(4, 5);
    VX_CHECK(!mzd_equal(A, B) && !mzd_equal(A, C) && !mzd_equal(B, A), "mzd_equal", "dimensions", "matrices of different dimensions reported equal");
    VX_CHECK(mzd_cmp(A, B) != 0 && mzd_cmp(A, C) != 0 && sgn(mzd_cmp(A, B)) == -sgn(mzd_cmp(B, A)), "mzd_cmp", "dimensions", "cmp on different dimensions");
    VX_CHECK(mzd_equal(A, A) && mzd_cmp(A, A) == 0, "mzd_equal", "same-object", "a matrix is not equal to itself");
    { /* all ordered pairs over a grid of dimensions (contents differ too): never 0 across dimensions, antisymmetric, transitive */
      static const int DR[] = {1, 3, 4, 64}, DC[] = {1, 5, 6, 64, 65, 130}; mzd_t *G[24]; int ng = 0;
      for (int a = 0; a < 4; a++) for (int b = 0; b < 6; b++) { G[ng] = mzd_init(DR[a], DC[b]); mzd_write_bit(G[ng], DR[a] - 1, DC[b] - 1, (a + b) & 1); ng++; }
      for (int x = 0; x < ng; x++) for (int y = 0; y < ng; y++) { int cxy = sgn(mzd_cmp(G[x], G[y])), cyx = sgn(mzd_cmp(G[y], G[x]));
        if ((cxy == 0) != (x == y)) vx_fail("mzd_cmp", "dimensions", "cmp(%dx%d, %dx%d) == 0 iff same: got %d", G[x]->nrows, G[x]->ncols, G[y]->nrows, G[y]->ncols, cxy);
        if (cxy != -cyx) vx_fail("mzd_cmp", "antisymmetry", "cmp(%dx%d, %dx%d) = %d but reversed = %d", G[x]->nrows, G[x]->ncols, G[y]->nrows, G[y]->ncols, cxy, cyx);
        if ((mzd_equal(G[x], G[y]) != 0) != (x == y)) vx_fail("mzd_equal", "dimensions", "equal(%dx%d, %dx%d) wrong", G[x]->nrows, G[x]->ncols, G[y]->nrows, G[y]->ncols);
        for (int z = 0; z < ng; z++) { int cyz = sgn(mzd_cmp(G[y], G[z])), cxz = sgn(mzd_cmp(G[x], G[z])); if (cxy <= 0 && cyz <= 0 && cxz > 0) vx_fail("mzd_cmp", "transitivity", "dimension grid %d %d %d", x, y, z); } }
      for (int x = 0; x < ng; x++) mzd_free(G[x]); }
    mzd_free(A); mzd_free(B); mzd_free(C); vx_input(77, 1); vx_case_end();
  }
}

/* transitivity / total order of mzd_cmp on all triples of small sets */
static void mode_order(void) {
  /* set 1: all 16 2x2 matrices; set 2: 24 matrices (2 x 130) differing in first / middle / last partial word; set 3: 27 matrices 1x65..  */
  for (int set = 0; set < 3; set++) {
    int n = set == 0 ? 16 : set == 1 ? 24 : 27, r = set == 0 ? 2 : set == 1 ? 2 : 3, c = set == 0 ? 2 : set == 1 ? 130 : 65;
    for (int a = 0; a < n; a++) {
      if (!vx_case_begin("order|set=%d|a=%d", set, a)) continue;
      pm **S = vx_malloc(sizeof(pm *) * (size_t)n); mzd_t **Z = vx_malloc(sizeof(mzd_t *) * (size_t)n);
      for (int i = 0; i < n; i++) {
        S[i] = pm_new(r, c);
        if (set == 0) { for (int b = 0; b < 4; b++) pm_set(S[i], b / 2, b % 2, (i >> b) & 1); }
        else if (set == 1) { int pos[3] = {0, 70, 129}; int k = i / 8, m = i % 8; pm_set(S[i], m & 1, pos[k], 1); if (m & 2) pm_set(S[i], 1, pos[(k + 1) % 3], 1); if (m & 4) pm_set(S[i], 0, pos[(k + 2) % 3], 1); }
        else { int t = i; for (int q = 0; q < 3; q++) { int d = t % 3; t /= 3; if (d == 1) pm_set(S[i], q, 0, 1); if (d == 2) pm_set(S[i], q, 64, 1); } }
        Z[i] = mzd_from_pm(S[i]);
      }
      uint64_t ne = 0;
      for (int b = 0; b < n; b++) for (int cc = 0; cc < n; cc++) {
        int ab = sgn(mzd_cmp(Z[a], Z[b])), bc = sgn(mzd_cmp(Z[b], Z[cc])), ac = sgn(mzd_cmp(Z[a], Z[cc]));
        ne++;
        if ((ab == 0) != pm_eq(S[a], S[b])) { vx_fail("mzd_cmp", "zero-iff-equal", "set %d elements %d,%d", set, a, b); goto out; }
        if (ab <= 0 && bc <= 0 && ac > 0) { vx_fail("mzd_cmp", "transitivity", "set %d: %d <= %d <= %d but cmp(%d,%d) > 0", set, a, b, cc, a, cc); goto out; }
        if (ab >= 0 && bc >= 0 && ac < 0) { vx_fail("mzd_cmp", "transitivity", "set %d: %d >= %d >= %d but cmp(%d,%d) < 0", set, a, b, cc, a, cc); goto out; }
      }
    out:
      for (int i = 0; i < n; i++) { mzd_free(Z[i]); pm_free(S[i]); }
      vx_free(S); vx_free(Z);
      vx_count("evals", ne); vx_input(0xC17000 + (uint64_t)set * 100 + (uint64_t)a, 1);
      vx_case_end();
    }
  }
}

/* pivot search: every (start_row, start_col) x every single-entry and two-entry matrix */
static void pivot_check(const mzd_t *V, const pm *M, int sr, int sc, const char *desc) {
  rci_t pr = -7, pc = -7;
  int found = mzd_find_pivot(V, sr, sc, &pr, &pc);
  /* reference: left-most non-zero column of the region rows >= sr, cols >= sc */
  int ec = -1;
  for (int j = sc; j < M->c && ec < 0; j++) for (int i = sr; i < M->r; i++) if (pm_get(M, i, j)) { ec = j; break; }
  if ((ec >= 0) != (found != 0)) { vx_fail("mzd_find_pivot", "found-iff-nonzero", "%s start=(%d,%d): returned %d but the region is %s", desc, sr, sc, found, ec >= 0 ? "non-zero" : "zero"); return; }
  if (found) {
    if (pc != ec) { vx_fail("mzd_find_pivot", "leftmost-column", "%s start=(%d,%d): reported column %d, left-most non-zero column of the region is %d", desc, sr, sc, pc, ec); return; }
    if (pr < sr || pr >= M->r || !pm_get(M, pr, pc)) vx_fail("mzd_find_pivot", "pivot-row", "%s start=(%d,%d): reported position (%d,%d) does not hold a one inside the region", desc, sr, sc, pr, pc);
  }
}
static void mode_pivot(void) {
  static const int CS[] = {1, 63, 64, 65, 127, 128, 129, 130, 192, 200};
  int R = 5;
  for (int ci = 0; ci < 10; ci++) { int c = CS[ci];
    for (int i = 0; i < R; i++) for (int j = 0; j < c; j++) for (int pl = 0; pl < (vx_tier ? 5 : 2); pl++) {
      vx_group();
      /* single entry at (i,j); second entry in a different column from a boundary set */
      int seconds[12], ns = 0; seconds[ns++] = -1;
      int cand[] = {0, 1, 62, 63, 64, 65, c - 2, c - 1, j + 1, j - 1, 127, 128};
      for (int q = 0; q < 12; q++) { int x = cand[q]; if (x < 0 || x >= c || x == j) continue; int dup = 0; for (int t = 1; t < ns; t++) if (seconds[t] == x) dup = 1; if (!dup && ns < 12) seconds[ns++] = x; }
      for (int si = 0; si < ns; si++) for (int i2 = 0; i2 < (si == 0 ? 1 : R); i2 += 2) {
        if (pl == 1 && si > 3 && !vx_tier) continue;
        if (!vx_case_begin("find_pivot|%dx%d|U(%d,%d)|second=(%d,%d)|placement=%d", R, c, i, j, si ? i2 : -1, seconds[si], pl)) continue;
        char desc[120]; snprintf(desc, sizeof desc, "%dx%d entries (%d,%d)%s placement %d", R, c, i, j, si ? "+second" : "", pl);
        pm *M = pm_new(R, c); pm_set(M, i, j, 1); if (si) pm_set(M, i2, seconds[si], 1);
        vwin w = place(M, pl);
        uint64_t ne = 0;
        for (int sr = 0; sr < R; sr++) for (int sc = 0; sc < c; sc++) {
          /* all start columns for narrow matrices; boundary start columns otherwise */
          if (c > 70 && !(sc < 2 || (sc % 64) < 2 || (sc % 64) > 61 || sc == j || sc == j + 1 || sc == j - 1 || sc >= c - 66 || sc == seconds[si] || sc == seconds[si] + 1)) continue;
          pivot_check(w.view, M, sr, sc, desc); ne++;
        }
        vx_count("evals", ne);
        vx_input(pm_hash(M) ^ ((uint64_t)pl << 61), 1);
        vw_free(&w); pm_free(M);
        vx_case_end();
      }
    }
    /* dense and zero */
    for (int p = 0; p < 3; p++) for (int pl = 0; pl < 5; pl++) {
      if (!vx_case_begin("find_pivot|%dx%d|dense=%d|placement=%d", R, c, p, pl)) continue;
      pm *M = pm_pat(R, c, p == 0 ? (pat){P_Z, 0, 0} : p == 1 ? (pat){P_PR, 1, 5} : (pat){P_PR, 0, 6});
      vwin w = place(M, pl); uint64_t ne = 0;
      for (int sr = 0; sr < R; sr++) for (int sc = 0; sc < c; sc++) { pivot_check(w.view, M, sr, sc, "dense"); ne++; }
      vx_count("evals", ne); vx_input(pm_hash(M) ^ ((uint64_t)pl << 61) ^ 5, p > 0);
      vw_free(&w); pm_free(M);
      vx_case_end();
    }
  }
}

void prop_enumerate(void) {
  const char *mode = vx_arg("mode", "pairs");
  if (!strcmp(mode, "pairs")) mode_pairs();
  else if (!strcmp(mode, "order")) mode_order();
  else if (!strcmp(mode, "pivot")) mode_pivot();
}
int main(int argc, char **argv) { return vx_main(argc, argv); }
