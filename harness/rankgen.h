/* Rank-structured input alphabets shared by C02, C03, C06, C07 (DESIGN.md 3.1):
 *   TINY(N)  all matrices with at most N entries, every shape
 *   LIFT     Kronecker lifts M (x) J of every small binary matrix M, block sizes crossing word and table-block boundaries
 *   ECH      echelon forms whose pivot set ranges over all subsets of 10 boundary columns
 *   RK       L(m x r) * R(r x n) for boundary shapes and ranks
 *   BND      boundary shapes x structured patterns
 * Inputs are described by a small spec and built lazily (only by the worker that executes the case). */
#ifndef RANKGEN_H
#define RANKGEN_H
#include "vx.h"

typedef struct { int fam; int r, c; uint64_t bits; int b, J, dens, aux; } rk_spec;
enum { F_TINY, F_LIFT, F_ECH, F_RK, F_BND, F_REC, F_HYB, F_RECW };

static const char *rk_str(const rk_spec *s, char *buf, size_t n) {
  switch (s->fam) {
  case F_TINY: snprintf(buf, n, "TINY(%dx%d,0x%llx)", s->r, s->c, (unsigned long long)s->bits); break;
  case F_LIFT: snprintf(buf, n, "LIFT(M=%dx%d:0x%llx,b=%d,J=%d,dens=%d)", s->r, s->c, (unsigned long long)s->bits, s->b, s->J, s->dens); break;
  case F_ECH: snprintf(buf, n, "ECH(n=%d,piv=0x%llx,extra=%d,scr=%d)", s->c, (unsigned long long)s->bits, s->aux, s->dens); break;
  case F_RK: snprintf(buf, n, "RK(%dx%d,rank=%d)", s->r, s->c, s->aux); break;
  case F_BND: snprintf(buf, n, "BND(%dx%d,pat=%d)", s->r, s->c, s->aux); break;
  case F_HYB: snprintf(buf, n, "HYB(sparse=%d,dense=%dx%d,dens=%d,gap=%d)", s->aux, s->r - s->aux, s->c - s->aux, s->dens, s->b); break;
  case F_RECW: snprintf(buf, n, "RECW(%dx%d,variant=%d)", s->r, s->c, s->dens); break;
  case F_REC: snprintf(buf, n, "REC(%dx%d,n1=%d,r1=%d,r2=%d,place=%d)", s->r, s->c, s->aux, s->b, s->J, s->dens); break;
  }
  return buf;
}

static pm *rk_build(const rk_spec *s) {
  switch (s->fam) {
  case F_TINY: {
    pm *A = pm_new(s->r, s->c);
    for (int i = 0; i < s->r * s->c; i++) pm_set(A, i / s->c, i % s->c, (int)((s->bits >> i) & 1));
    return A; }
  case F_LIFT: {
    pm *M = pm_new(s->r, s->c);
    for (int i = 0; i < s->r * s->c; i++) pm_set(M, i / s->c, i % s->c, (int)((s->bits >> i) & 1));
    pm *J = s->J == 0 ? pm_identity(s->b) : s->J == 1 ? pm_dense_invertible(s->b, 3) : pm_pat(s->b, s->b, (pat){P_O, 0, 0});
    pm *K = pm_kron(M, J);
    pm_free(M); pm_free(J);
    if (s->dens & 1) { pm *L = pm_dense_invertible(K->r, 11); pm *t = pm_mul(L, K); pm_free(L); pm_free(K); K = t; }
    if (s->dens & 2) { pm *R = pm_dense_invertible(K->c, 12); pm *t = pm_mul(K, R); pm_free(R); pm_free(K); K = t; }
    return K; }
  case F_ECH: {
    /* pivot columns: subset (bits) of the 10 boundary columns of an n-column matrix */
    int n = s->c; int cols[10] = {0, 1, 62, 63, 64, 65, 126, 127, 128, n - 1}; int piv[10], np = 0;
    for (int i = 0; i < 10; i++) if ((s->bits >> i) & 1) piv[np++] = cols[i];
    int rows = np + s->aux; if (rows < 1) rows = 1;
    pm *E = pm_new(rows, n);
    uint64_t st = 0xECEC + s->bits * 7 + vx_seed;
    for (int i = 0; i < np; i++) {
      pm_set(E, i, piv[i], 1);
      for (int j = piv[i] + 1; j < n; j++) { int isp = 0; for (int q = 0; q < np; q++) if (piv[q] == j) isp = 1; if (!isp) pm_set(E, i, j, (int)(vx_rand(&st) & 1)); else if (s->dens & 2) pm_set(E, i, j, (int)(vx_rand(&st) & 1)); }
    }
    if (s->dens & 1) { pm *L = pm_dense_invertible(rows, 21); pm *t = pm_mul(L, E); pm_free(L); pm_free(E); E = t; }
    return E; }
  case F_RK: {
    int r = s->aux;
    if (r == 0) return pm_new(s->r, s->c);
    pm *L = pm_pat(s->r, r, (pat){P_PR, 0, 31}), *R = pm_pat(r, s->c, (pat){P_PR, 0, 32});
    /* make sure the factors have full rank r: overwrite with unit "staircase" parts */
    for (int i = 0; i < r; i++) { for (int j = 0; j < r; j++) { pm_set(L, i, j, i == j || (j < i && pm_get(L, i, j))); pm_set(R, i, j, i == j || (j > i && pm_get(R, i, j))); } }
    pm *A = pm_mul(L, R); pm_free(L); pm_free(R);
    return A; }
  case F_BND: {
    static const pat P[] = {{P_Z, 0, 0}, {P_O, 0, 0}, {P_ID, 0, 0}, {P_SHID, 1, 0}, {P_SHID, 64, 0}, {P_PR, 0, 41}, {P_PR, 1, 42}, {P_PR, 2, 43}, {P_ANTI, 0, 0}, {P_CHK, 0, 0}, {P_WORDSTRIPE, 0, 0}, {P_WORDSTRIPE, 1, 0}, {P_COLSTRIPE, 0, 0}};
    return pm_pat(s->r, s->c, P[s->aux]); }
  case F_HYB: {
    /* sparse start, dense end: [[I_s (with gaps), X], [0, D]].  The sampled density is low at the start and rises once M4RI has
       consumed the s sparse columns, so the density-switching hybrid changes algorithm in the middle (> 256 columns in). */
    int sp = s->aux, r = s->r, c = s->c;
    pm *A = pm_new(r, c);
    for (int i = 0; i < sp; i++) if (!s->b || (i % s->b) != s->b - 1) pm_set(A, i, i, 1); /* optional pivot gaps in the sparse part */
    pm *X = pm_pat(r, c - sp, (pat){P_PR, s->dens, 71});
    for (int i = 0; i < r; i++) for (int j = sp; j < c; j++) pm_set(A, i, j, pm_get(X, i, j - sp));
    pm_free(X);
    return A; }
  case F_RECW: {
    /* WIDE matrices above the recursion threshold (few rows, very many columns): the recursion splits the columns, so the left
       half can have full ROW rank (r1 == nrows: nothing left for the second call), be zero, or have low rank at several
       nested levels.  variant 0 dense; 1 left half zero; 2 left three quarters zero; 3 rank <= 2 (two distinct rows);
       4 only the left quarter non-zero; 5 left half of rank ceil(nr/2) (duplicated rows), right half dense; 6 dense with zero
       column stripes of 37 */
    int nr = s->r, nc = s->c, v = s->dens;
    pm *A = pm_pat(nr, nc, (pat){P_PR, 0, 81 + v});
    if (v == 1 || v == 2) { int z = v == 1 ? nc / 2 : (3 * nc) / 4; for (int i = 0; i < nr; i++) for (int j = 0; j < z; j++) pm_set(A, i, j, 0); }
    if (v == 3) for (int i = 2; i < nr; i++) memcpy(A->d + (size_t)i * A->w, A->d + (size_t)(i & 1) * A->w, (size_t)A->w * 8);
    if (v == 4) for (int i = 0; i < nr; i++) for (int j = nc / 4; j < nc; j++) pm_set(A, i, j, 0);
    if (v == 5) { int h = (nr + 1) / 2; for (int i = h; i < nr; i++) for (int j = 0; j < nc / 2; j++) pm_set(A, i, j, pm_get(A, i - h, j)); }
    if (v == 6) for (int j = 0; j < nc; j++) if ((j / 37) % 2) for (int i = 0; i < nr; i++) pm_set(A, i, j, 0);
    return A; }
  case F_REC: {
    /* left column half [0,n1) holds r1 independent columns, right half r2 more (unit lower-triangular staircase: leading ones
       at distinct rows, zeros above). place 0: left pivots at the END of the left half (zero columns first), right pivots
       contiguous; place 1: both spread evenly (gaps everywhere); place 2: right pivots start after a gap of 3 */
    int nr = s->r, nc = s->c, n1 = s->aux, r1 = s->b, r2 = s->J, r = r1 + r2;
    if (r == 0) return pm_new(nr, nc);
    int *pc = vx_malloc(sizeof(int) * (size_t)r);
    for (int j = 0; j < r1; j++) pc[j] = s->dens == 1 ? (int)(((long)j * n1) / r1) : n1 - r1 + j;
    for (int j = 0; j < r2; j++) pc[r1 + j] = n1 + (s->dens == 1 ? (int)(((long)j * (nc - n1)) / r2) : s->dens == 2 ? ((r2 + 3 <= nc - n1) ? 3 + j : j) : j);
    /* A = G * E: G (nr x r) has independent columns (unit lower-triangular staircase, dense below), E (r x nc) is a reduced
       echelon form with pivots at pc[] and pseudo-random entries in the non-pivot columns to the right of each pivot, so that
       non-pivot columns are non-zero combinations of earlier pivot columns (column rank profile = pc[]) */
    pm *G = pm_pat(nr, r, (pat){P_PR, 0, 61});
    for (int j = 0; j < r; j++) for (int i = 0; i <= j && i < nr; i++) pm_set(G, i, j, i == j);
    pm *E = pm_pat(r, nc, (pat){P_PR, 0, 62});
    for (int t = 0; t < r; t++) { for (int c = 0; c <= pc[t] && c < nc; c++) pm_set(E, t, c, c == pc[t]); for (int u2 = 0; u2 < r; u2++) if (u2 != t) pm_set(E, t, pc[u2], 0); }
    pm *A = pm_mul(G, E);
    pm_free(G); pm_free(E); vx_free(pc);
    return A; }
  }
  return NULL;
}
#define RK_NBND 13

typedef void (*rk_cb)(const rk_spec *s, void *u);

/* families selected by a bit mask so that a check can split its run list */
static void rk_enumerate(int fams, int tiny_n, int lift_n, rk_cb cb, void *u) {
  rk_spec s;
  if (fams & (1 << F_TINY))
    for (int r = 1; r <= tiny_n; r++) for (int c = 1; r * c <= tiny_n; c++) for (uint64_t x = 0; x < (1ULL << (r * c)); x++) {
      memset(&s, 0, sizeof s); s.fam = F_TINY; s.r = r; s.c = c; s.bits = x; cb(&s, u);
    }
  if (fams & (1 << F_LIFT)) {
    static const int BQ[] = {7, 33, 65}, BT[] = {1, 7, 33, 64, 65};
    const int *B = vx_tier ? BT : BQ; int nb = vx_tier ? 5 : 3; int only_b = vx_argi("lift-b", 0);
    for (int r = 1; r <= lift_n; r++) for (int c = 1; r * c <= lift_n; c++) for (uint64_t x = 0; x < (1ULL << (r * c)); x++)
      for (int bi = 0; bi < nb; bi++) for (int J = 0; J < 3; J++) for (int d = 0; d < 3; d++) {
        if (B[bi] == 1 && J != 0) continue;
        if (only_b && B[bi] != only_b) continue;
        if (B[bi] * r > 640 || B[bi] * c > 640) continue;
        memset(&s, 0, sizeof s); s.fam = F_LIFT; s.r = r; s.c = c; s.bits = x; s.b = B[bi]; s.J = J; s.dens = d == 2 ? 3 : d; cb(&s, u);
      }
  }
  if (fams & (1 << F_ECH)) {
    static const int NS[] = {130, 200, 129};
    int nn = vx_tier ? 3 : 1;
    for (int ni = 0; ni < nn; ni++) for (uint64_t x = 0; x < 1024; x++) for (int extra = 0; extra <= 2; extra += 2) for (int scr = 0; scr < (vx_tier ? 4 : 2); scr++) {
      memset(&s, 0, sizeof s); s.fam = F_ECH; s.c = NS[ni]; s.bits = x; s.aux = extra; s.dens = scr; cb(&s, u);
    }
  }
  if (fams & (1 << F_RK)) {
    static const int DQ[] = {1, 63, 64, 65, 129}, DT[] = {1, 2, 63, 64, 65, 127, 128, 129, 191, 192, 193, 255, 256, 257};
    const int *D = vx_tier ? DT : DQ; int nd = vx_tier ? 14 : 5;
    for (int a = 0; a < nd; a++) for (int b = 0; b < nd; b++) {
      int m = D[a], n = D[b], mn = m < n ? m : n; int rs[6] = {0, 1, 2, mn / 2, mn - 1, mn};
      for (int i = 0; i < 6; i++) { int dup = 0; for (int j = 0; j < i; j++) if (rs[j] == rs[i]) dup = 1; if (dup || rs[i] < 0 || rs[i] > mn) continue;
        memset(&s, 0, sizeof s); s.fam = F_RK; s.r = m; s.c = n; s.aux = rs[i]; cb(&s, u); }
    }
  }
  if (fams & (1 << F_HYB)) {
    static const int SP[] = {258, 300, 330, 420}, DD[][2] = {{40, 70}, {100, 100}, {70, 40}};
    for (int a = 0; a < 4; a++) for (int b = 0; b < 3; b++) for (int d = 0; d < 3; d += 2) for (int gap = 0; gap < 2; gap++) {
      if (!vx_tier && (a + b + gap) % 2) continue;
      memset(&s, 0, sizeof s); s.fam = F_HYB; s.aux = SP[a]; s.r = SP[a] + DD[b][0]; s.c = SP[a] + DD[b][1]; s.dens = d; s.b = gap ? 37 : 0; cb(&s, u);
    }
  }
  if (fams & (1 << F_REC)) {
    /* shapes at which block-recursive PLE is entered in the configuration built (width*nrows > PLE cutoff, > 64 columns) */
    long cut = __M4RI_PLE_CUTOFF;
    static const int ncs[] = {128, 192, 200, 321, 129, 256, 320, 520};
    static const int r1s[] = {0, 1, 63, 64, 65, 70, 128}, r2s[] = {0, 1, 64, 127, 128, 130, 200};
    int nnc = vx_tier ? 8 : 4;
    for (int ci = 0; ci < nnc; ci++) {
      int nc = ncs[ci], w = (nc + 63) / 64; long nr0 = cut / w + 1;
      if (nr0 > 6000) continue; /* host configuration needs > 2^19 words: not reachable at bounded size */
      int nr = (int)nr0 + 3, n1 = (((nc - 1) / 64 + 1) >> 1) * 64;
      for (int a = 0; a < 7; a++) for (int b = 0; b < 7; b++) for (int place = 0; place < 3; place++) {
        int r1 = r1s[a], r2 = r2s[b];
        if (r1 > n1 || r2 > nc - n1 || r1 + r2 > nr) continue;
        if (!vx_tier && ((a * 7 + b + place) % 2) && !(r1 % 64 == 0 && r2 >= 128)) continue;
        memset(&s, 0, sizeof s); s.fam = F_REC; s.r = nr; s.c = nc; s.aux = n1; s.b = r1; s.J = r2; s.dens = place; cb(&s, u);
      }
    }
  }
  if (fams & (1 << F_RECW)) {
    long cut = __M4RI_PLE_CUTOFF;
    static const int nrs[] = {1, 7, 40, 64, 65, 130};
    if (cut <= 20000) for (int a = 0; a < 6; a++) for (int v = 0; v < 7; v++) {
      int nr = nrs[a]; long words = cut / nr + 2; int nc = (int)(64 * words) - (v % 3 == 1 ? 17 : 0);
      if (!vx_tier && ((a + v) % 2) && !(v == 0 || v == 5)) continue;
      memset(&s, 0, sizeof s); s.fam = F_RECW; s.r = nr; s.c = nc; s.dens = v; cb(&s, u);
    }
  }
  if (fams & (1 << F_BND)) {
    static const int DQ[] = {1, 63, 64, 65, 129}, DT[] = {1, 2, 63, 64, 65, 127, 128, 129, 191, 192, 193, 255, 256, 257};
    const int *D = vx_tier ? DT : DQ; int nd = vx_tier ? 14 : 5;
    for (int a = 0; a < nd; a++) for (int b = 0; b < nd; b++) for (int p = 0; p < RK_NBND; p++) {
      memset(&s, 0, sizeof s); s.fam = F_BND; s.r = D[a]; s.c = D[b]; s.aux = p; cb(&s, u);
    }
  }
}
#endif
