/* C09: views - operations on a window read and write only the viewed block (differential against standalone copies). */
#include "ops.h"
#ifdef VX_C10_VIEWS
/* the same enumeration compiled as a C10 run: results and the zero padding of every OWNED matrix must not depend on whether
   the other operands are standalone matrices or views into dirty parents (the C09-specific clauses are not reported here) */
const char *prop_id = "C10";
#define C09_ONLY(x) ((void)0)
#else
const char *prop_id = "C09";
#define C09_ONLY(x) x
#endif

typedef struct { int rowoff, wordoff, trailw, trailr, nest; } plc;
static plc PL[80]; static int nPL;
static void placements(void) {
  nPL = 0;
  /* trailw = -1: the parent extends beyond the view only inside the view's last word */
  PL[nPL++] = (plc){0, 0, -1, 0}; PL[nPL++] = (plc){1, 1, -1, 2};
  /* nest = 1: view of a view whose intermediate view has the same column range */
  PL[nPL++] = (plc){0, 0, -1, 0, 1}; PL[nPL++] = (plc){1, 1, 1, 2, 1}; if (vx_tier) { PL[nPL++] = (plc){3, 0, 2, 0, 1}; PL[nPL++] = (plc){0, 2, -1, 2, 1}; }
  if (vx_tier) { for (int a = 0; a < 3; a++) for (int b = 0; b < 3; b++) for (int c = 0; c < 3; c++) for (int d = 0; d < 2; d++) PL[nPL++] = (plc){a == 2 ? 3 : a, b, c, d * 2}; }
  else { static const plc Q[] = {{0, 0, 1, 0}, {1, 1, 1, 2}, {3, 2, 0, 0}, {1, 1, 0, 2}, {0, 1, 2, 0}, {3, 0, 2, 2}, {0, 2, 1, 2}, {1, 0, 0, 0}, {0, 1, 0, 0}, {3, 1, 1, 0}, {1, 2, 2, 2}, {0, 0, 0, 2}, {3, 1, 2, 2}, {1, 0, 1, 0}, {0, 2, 0, 0}, {3, 0, 1, 2}}; for (int i = 0; i < 16; i++) PL[nPL++] = Q[i]; }
}

typedef struct { pm *fin[3]; pm *res; uint64_t scalar; int have; } baseline;

static void run_case_s(const vop *o, const oshape *s, int mask, int pi, int fill, int data, baseline *bl) {
  pm *content[3] = {0, 0, 0};
  for (int k = 0; k < o->nmat; k++) content[k] = op_content(o, s, k, data);
  char sig[96], wn[8] = ""; { int n = 0; for (int k = 0; k < o->nmat; k++) if (mask & (1 << k)) wn[n++] = (char)('0' + k); wn[n] = 0; }
  snprintf(sig, sizeof sig, "%s|win=%s", o->name, wn);
  if (!bl->have) {
    mzd_t *m[3] = {0, 0, 0}, *res = NULL;
    for (int k = 0; k < o->nmat; k++) m[k] = mzd_from_pm(content[k]);
    bl->scalar = o->run(m, s, &res);
    for (int k = 0; k < o->nmat; k++) { bl->fin[k] = pm_from_mzd(m[k]); mzd_free(m[k]); }
    bl->res = res ? pm_from_mzd(res) : NULL; if (res) mzd_free(res);
    bl->have = 1;
  }
  vwin w[3]; mzd_t *m[3] = {0, 0, 0}, *res = NULL; char msg[256];
  for (int k = 0; k < o->nmat; k++) {
    plc p = PL[(pi + k * 3) % nPL];
    vw_nest = p.nest;
    w[k] = vw_make(content[k], (mask >> k) & 1, p.rowoff, p.wordoff, p.trailw, p.trailr, (fill + k) % 3 == 0 && fill ? 2 : fill);
    vw_nest = 0; vw_snapshot(&w[k]); m[k] = w[k].view;
  }
  uint64_t sc = o->run(m, s, &res);
  if (sc != bl->scalar) vx_fail(sig, "scalar-result", "returned value differs from the call on standalone copies (%llx vs %llx)", (unsigned long long)sc, (unsigned long long)bl->scalar);
  if ((res != NULL) != (bl->res != NULL)) vx_fail(sig, "result-matrix", "result matrix presence differs from the standalone call");
  else if (res) { if (!mzd_eq_pm(res, bl->res)) vx_fail(sig, "result-matrix", "returned matrix differs from the call on standalone copies"); if (mzd_padding_dirty(res) >= 0) vx_fail(sig, "padding", "returned owned matrix has non-zero bits beyond its last column"); }
  for (int k = 0; k < o->nmat; k++) {
    char cl[48];
    if (!mzd_eq_pm(m[k], bl->fin[k])) {
      snprintf(cl, sizeof cl, o->role[k] == 'i' ? "readonly-operand-%d" : "view-content-%d", k);
      vx_fail(sig, cl, "operand %d (%s) differs from the same call on standalone copies", k, (mask >> k) & 1 ? "window" : "owned");
    }
    if ((mask >> k) & 1) { C09_ONLY(if (vw_outside_changed(&w[k], msg, sizeof msg)) { snprintf(cl, sizeof cl, "parent-outside-%d", k); vx_fail(sig, cl, "operand %d: %s", k, msg); }); }
    else if (mzd_padding_dirty(m[k]) >= 0) { snprintf(cl, sizeof cl, "padding-%d", k); vx_fail(sig, cl, "owned operand %d has non-zero bits beyond its last column", k); }
    C09_ONLY(if (o->role[k] == 'i' && !vw_all_unchanged(&w[k], msg, sizeof msg)) { snprintf(cl, sizeof cl, "readonly-operand-%d", k); vx_fail(sig, cl, "read-only operand %d: %s", k, msg); });
  }
  if (res) mzd_free(res);
  uint64_t dg = 0;
  for (int k = 0; k < o->nmat; k++) { dg = dg * 31 + pm_hash(content[k]); vw_free(&w[k]); pm_free(content[k]); }
  vx_input(dg ^ ((uint64_t)mask << 56) ^ ((uint64_t)pi << 48) ^ ((uint64_t)fill << 44) ^ ((uint64_t)(o - OPS) << 32), 1);
}

static void run_case(const vop *o, int si, int mask, int pi, int fill, int data, baseline *bl) { run_case_s(o, &o->shapes[si], mask, pi, fill, data, bl); }

/* width sweep: the data-movement / element-wise / small-product entry points on views of EVERY width 1..130 (and a few wider),
   i.e. every residue of the column count modulo 64 and every size class of the width-specialised kernels, not only the handful
   of shapes of the registry */
static int sweep_shape(const vop *o, int r, int w, int l, oshape *out) {
  memset(out, 0, sizeof *out);
  const oshape *f = o->shapes;
  if (f == sh_one || f == sh_tr_new || f == sh_extract_new) { out->d[0][0] = r; out->d[0][1] = w; return 1; }
  if (f == sh_same2 || f == sh_obs2) { for (int k = 0; k < 2; k++) { out->d[k][0] = r; out->d[k][1] = w; } return 1; }
  if (f == sh_same3) { for (int k = 0; k < 3; k++) { out->d[k][0] = r; out->d[k][1] = w; } return 1; }
  if (f == sh_tr) { out->d[0][0] = w; out->d[0][1] = r; out->d[1][0] = r; out->d[1][1] = w; return 1; }
  if (f == sh_mul || f == sh_mul_k) { out->d[0][0] = r; out->d[0][1] = w; out->d[1][0] = r; out->d[1][1] = l; out->d[2][0] = l; out->d[2][1] = w; return 1; }
  if (f == sh_mul_new) { out->d[0][0] = r; out->d[0][1] = l; out->d[1][0] = l; out->d[1][1] = w; return 1; }
  if (f == sh_concat) { out->d[0][0] = r; out->d[0][1] = w + l; out->d[1][0] = r; out->d[1][1] = w; out->d[2][0] = r; out->d[2][1] = l; return 1; }
  if (f == sh_concat_new) { out->d[0][0] = r; out->d[0][1] = w; out->d[1][0] = r; out->d[1][1] = l; return 1; }
  if (f == sh_stack) { out->d[0][0] = r + 2; out->d[0][1] = w; out->d[1][0] = r; out->d[1][1] = w; out->d[2][0] = 2; out->d[2][1] = w; return 1; }
  if (f == sh_stack_new) { out->d[0][0] = r; out->d[0][1] = w; out->d[1][0] = 2; out->d[1][1] = w; return 1; }
  /* elimination-type entry points: one r x w operand (parameter: full / k / cutoff alternate with the width) */
  if (f == sh_ech || f == sh_ple || f == sh_kernel || f == sh_perm) { out->d[0][0] = r; out->d[0][1] = w; out->p[0] = (f == sh_ech) ? (w & 1) : 0; return 1; }
  if (f == sh_ech_k) { out->d[0][0] = r; out->d[0][1] = w; out->p[0] = w & 1; out->p[1] = (w >> 1) % 7; return 1; }
  if (f == sh_ple_k) { out->d[0][0] = r; out->d[0][1] = w; out->p[0] = (w % 5 == 0) ? 0 : (w % 5) + 1; return 1; }
  /* triangular solves: T is r2 x r2 with r2 = l (9 or 70), B has w columns (left) resp. w rows... the swept dimension is the one
     that is NOT tied to T: columns of B for the left variants, and T itself (w x w) with B r x w for the right variants */
  if (f == sh_trsm_l) { out->d[0][0] = l; out->d[0][1] = l; out->d[1][0] = l; out->d[1][1] = w; return 1; }
  if (f == sh_trsm_r) { out->d[0][0] = w; out->d[0][1] = w; out->d[1][0] = r; out->d[1][1] = w; return 1; }
  if (f == sh_trtri || f == sh_inv_new) { out->d[0][0] = w; out->d[0][1] = w; out->p[0] = (w % 4 == 0) ? 3 : 0; return 1; }
  return 0;
}
static void mode_sweep(void) {
  static const plc SP[] = {{1, 1, -1, 2, 0}, {0, 0, 1, 0, 0}, {1, 1, 1, 2, 1}, {0, 2, 0, 0, 0}};
  nPL = 4; for (int i = 0; i < 4; i++) PL[i] = SP[i];
  static const int RS[] = {6, 33, 1, 70};
  for (int oi = 0; oi < NOPS; oi++) { const vop *o = &OPS[oi]; oshape sh;
    if (!sweep_shape(o, 1, 1, 1, &sh)) continue;
    for (int ri = 0; ri < (vx_tier ? 4 : 2); ri++) for (int wi = 0; wi < 136; wi++) {
      int w = wi < 130 ? wi + 1 : (wi == 130 ? 191 : wi == 131 ? 192 : wi == 132 ? 193 : wi == 133 ? 256 : wi == 134 ? 257 : 320), r = RS[ri], l = (wi & 1) ? 70 : 9;
      if (o->shapes == sh_mul_k || o->shapes == sh_mul || o->shapes == sh_mul_new) { if (!vx_tier && (w % 64 > 2 && w % 64 < 31 && w % 64 != 16) ) continue; }
      if (o->shapes == sh_trsm_r || o->shapes == sh_trtri || o->shapes == sh_inv_new) { if (w > 193 || (!vx_tier && (w % 64 > 3 && w % 64 < 61 && w % 16))) continue; if (ri > 0 && o->shapes != sh_trsm_r) continue; }
      if (o->shapes == sh_ech || o->shapes == sh_ech_k || o->shapes == sh_ple || o->shapes == sh_ple_k || o->shapes == sh_kernel || o->shapes == sh_trsm_l) { if (!vx_tier && w > 130 && w != 192 && w != 257) continue; }
      sweep_shape(o, r, w, l, &sh);
      vx_group();
      baseline bl; memset(&bl, 0, sizeof bl);
      int full = (1 << o->nmat) - 1;
      for (int mi = 0; mi < 3; mi++) { int mask = mi == 0 ? full : mi == 1 ? 1 : (1 << (o->nmat - 1)); if (mi && mask == full) continue; if (mask & o->nowin) continue;
        for (int pi = 0; pi < 4; pi++) { if (!vx_tier && mi && (pi & 1)) continue;
          if (!vx_case_begin("%s|sweep|win=%d|%dx%d,l=%d|place=%d", o->name, mask, r, w, l, pi)) continue;
          run_case_s(o, &sh, mask, pi, 1, 0, &bl);
          vx_case_end(); } }
      for (int k = 0; k < 3; k++) if (bl.fin[k]) pm_free(bl.fin[k]);
      if (bl.res) pm_free(bl.res);
    }
  }
}

void prop_enumerate(void) {
  placements();
  if (!strcmp(vx_arg("mode", "registry"), "sweep")) { mode_sweep(); return; }
  int lo = vx_argi("op-from", 0), hi = vx_argi("op-to", NOPS);
  for (int oi = lo; oi < hi && oi < NOPS; oi++) { const vop *o = &OPS[oi];
    for (int si = 0; si < o->nshapes; si++) for (int data = 0; data < 2; data++) {
      vx_group();
      baseline bl; memset(&bl, 0, sizeof bl);
      for (int mask = 1; mask < (1 << o->nmat); mask++) for (int pi = 0; pi < nPL; pi++) for (int fill = 1; fill < 3; fill++) {
        if (mask & o->nowin) continue;
        if (!vx_tier && o->nmat == 3 && (mask == 3 || mask == 5 || mask == 6) && (pi % 2)) continue; /* quick: pairs on half of the placements */
        const oshape *s = &o->shapes[si];
        if (!vx_case_begin("%s|win=%d|shape=%d:%dx%d,%dx%d,%dx%d:p=%d,%d,%d,%d|place=%d(%d,%d,%d,%d)|fill=%d|data=%d", o->name, mask, si, s->d[0][0], s->d[0][1], s->d[1][0], s->d[1][1], s->d[2][0], s->d[2][1], s->p[0], s->p[1], s->p[2], s->p[3], pi, PL[pi].rowoff, PL[pi].wordoff, PL[pi].trailw, PL[pi].trailr, fill, data)) continue;
        run_case(o, si, mask, pi, fill, data, &bl);
        vx_case_end();
      }
      for (int k = 0; k < 3; k++) if (bl.fin[k]) pm_free(bl.fin[k]);
      if (bl.res) pm_free(bl.res);
    }
  }
}
int main(int argc, char **argv) { return vx_main(argc, argv); }
