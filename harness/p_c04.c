/* C04: triangular solves (four variants) satisfy T*X = B resp. X*T = B; only the named triangle is read. */
#include "vx.h"
const char *prop_id = "C04";

enum { UL, LL, UR, LR };
typedef struct { const char *name; int tri; int core; int russian; } variant;
static const variant V[] = {
  {"mzd_trsm_upper_left", UL, 0, 0}, {"mzd_trsm_lower_left", LL, 0, 0}, {"mzd_trsm_upper_right", UR, 0, 0}, {"mzd_trsm_lower_right", LR, 0, 0},
  {"_mzd_trsm_upper_left", UL, 1, 0}, {"_mzd_trsm_lower_left", LL, 1, 0}, {"_mzd_trsm_upper_right", UR, 1, 0}, {"_mzd_trsm_lower_right", LR, 1, 0},
  {"_mzd_trsm_upper_left_russian", UL, 1, 1}, {"_mzd_trsm_lower_left_russian", LL, 1, 1}};
#define NV 10

/* T patterns: kind 0 = explicit bits (strict triangle enumerated), 1 = single off-diagonal entry (a,b), 2 = full triangle, 3 = PR triangle density a */
typedef struct { int kind, a, b; uint64_t bits; } tpat;

static pm *build_T(int n, int upper, tpat tp, int fill) {
  pm *T = pm_new(n, n);
  /* named triangle */
  uint64_t st = 0x7171 + (uint64_t)tp.a * 131 + (uint64_t)tp.b + vx_seed; int idx = 0;
  for (int i = 0; i < n; i++) for (int j = 0; j < n; j++) {
    int named = upper ? (j > i) : (j < i);
    if (i == j) { pm_set(T, i, j, 1); continue; }
    if (!named) continue;
    int v = 0;
    switch (tp.kind) {
    case 0: v = (int)((tp.bits >> idx) & 1); idx++; break;
    case 1: v = upper ? (i == tp.a && j == tp.b) : (i == tp.b && j == tp.a); break;
    case 2: v = 1; break;
    case 3: { uint64_t r = vx_rand(&st); v = tp.a == 0 ? (int)(r & 1) : tp.a == 1 ? ((r & 15) == 0) : ((r & 15) != 0); break; }
    }
    pm_set(T, i, j, v);
  }
  /* opposite triangle: arbitrary data */
  if (fill) {
    uint64_t s2 = 0x9292 + vx_seed;
    for (int i = 0; i < n; i++) for (int j = 0; j < n; j++) { int opp = upper ? (j < i) : (j > i); if (opp) pm_set(T, i, j, fill == 1 ? 1 : (int)(vx_rand(&s2) & 1)); }
  }
  return T;
}
static pm *named_part(const pm *T, int upper) {
  pm *N = pm_new(T->r, T->c);
  for (int i = 0; i < T->r; i++) for (int j = 0; j < T->c; j++) if (i == j || (upper ? j > i : j < i)) pm_set(N, i, j, i == j ? 1 : pm_get(T, i, j));
  return N;
}

static void run(int vi, int param, int n, int w, tpat tp, int fill, pat bp, const char *desc) {
  const variant *v = &V[vi];
  int upper = (v->tri == UL || v->tri == UR), left = (v->tri == UL || v->tri == LL);
  pm *T = build_T(n, upper, tp, fill), *Tn = named_part(T, upper);
  pm *B = left ? pm_pat(n, w, bp) : pm_pat(w, n, bp);
  mzd_t *Tz = mzd_from_pm(T), *Bz = mzd_from_pm(B);
  switch (vi) {
  case 0: mzd_trsm_upper_left(Tz, Bz, param); break;
  case 1: mzd_trsm_lower_left(Tz, Bz, param); break;
  case 2: mzd_trsm_upper_right(Tz, Bz, param); break;
  case 3: mzd_trsm_lower_right(Tz, Bz, param); break;
  case 4: _mzd_trsm_upper_left(Tz, Bz, param); break;
  case 5: _mzd_trsm_lower_left(Tz, Bz, param); break;
  case 6: _mzd_trsm_upper_right(Tz, Bz, param); break;
  case 7: _mzd_trsm_lower_right(Tz, Bz, param); break;
  case 8: _mzd_trsm_upper_left_russian(Tz, Bz, param); break;
  case 9: _mzd_trsm_lower_left_russian(Tz, Bz, param); break;
  }
  pm *X = pm_from_mzd(Bz);
  pm *chk = left ? pm_mul(Tn, X) : pm_mul(X, Tn);
  if (!pm_eq(chk, B)) {
    int nd = 0, fi = -1, fj = -1; for (int i = 0; i < B->r; i++) for (int j = 0; j < B->c; j++) if (pm_get(chk, i, j) != pm_get(B, i, j)) { if (fi < 0) { fi = i; fj = j; } nd++; }
    vx_fail(v->name, fill ? "solution(opposite-triangle-filled)" : "solution", "%s: %s differs from B in %d entries, first at (%d,%d)", desc, left ? "T*X" : "X*T", nd, fi, fj);
  }
  VX_CHECK(mzd_eq_pm(Tz, T) && mzd_padding_dirty(Tz) < 0, v->name, "operand-unchanged", "%s: the triangular matrix was modified", desc);
  int pd = mzd_padding_dirty(Bz);
  if (pd >= 0) vx_fail(v->name, "padding", "%s: non-zero bits beyond the last column of B in row %d", desc, pd);
  vx_input(pm_hash(T) * 31 + pm_hash(B) * 17 + (uint64_t)vi * 1009 + (uint64_t)param, !pm_is_zero(B));
  pm_free(T); pm_free(Tn); pm_free(B); pm_free(X); pm_free(chk); mzd_free(Tz); mzd_free(Bz);
}

static void block(int n, int w, tpat tp, pat bp, int rich) {
  static const int CUT[] = {0, 64, 128, 256, 1, 2048}; static const int KS[] = {0, 1, 2, 3, 4, 5, 6, 7, 8};
  char tps[64], bps[40];
  snprintf(tps, sizeof tps, tp.kind == 0 ? "bits:0x%llx" : tp.kind == 1 ? "U(%d,%d)" : tp.kind == 2 ? "full" : "PR(%d)", tp.kind == 0 ? (unsigned long long)tp.bits : (unsigned long long)tp.a, tp.b);
  if (tp.kind == 1) snprintf(tps, sizeof tps, "U(%d,%d)", tp.a, tp.b);
  if (tp.kind == 3) snprintf(tps, sizeof tps, "PR(%d,%d)", tp.a, tp.b);
  pat_str(bp, bps);
  vx_group();
  for (int vi = 0; vi < NV; vi++) {
    const variant *v = &V[vi];
    if (v->core && !v->russian && !rich) continue;
    int np = v->russian ? (rich ? 9 : 3) : (rich ? (vx_tier ? 6 : 3) : 1);
    for (int pi = 0; pi < np; pi++) {
      int param = v->russian ? (rich ? KS[pi] : KS[pi * 4]) : CUT[pi];
      for (int fill = 0; fill < 3; fill++) {
        if (!rich && fill == 1 && tp.kind == 1) continue;
        char desc[200]; snprintf(desc, sizeof desc, "n=%d|w=%d|T=%s|fill=%d|B=%s", n, w, tps, fill, bps);
        if (!vx_case_begin("%s|p=%d|%s", v->name, param, desc)) continue;
        run(vi, param, n, w, tp, fill, bp, desc);
        vx_case_end();
      }
    }
  }
}

void prop_enumerate(void) {
  const char *mode = vx_arg("mode", "small");
  pat PRB = {P_PR, 0, 5};
  if (!strcmp(mode, "small")) {
    /* ALL unit-triangular matrices for n <= 5 (2^(n(n-1)/2)), B widths 1, 2, 65 */
    int nmax = vx_tier ? 6 : 5;
    for (int n = 1; n <= nmax; n++) for (uint64_t bits = 0; bits < (1ULL << (n * (n - 1) / 2)); bits++) {
      static const int W[] = {1, 3, 65};
      for (int wi = 0; wi < 3; wi++) block(n, W[wi], (tpat){0, 0, 0, bits}, PRB, 0);
    }
  } else if (!strcmp(mode, "units")) {
    /* a single off-diagonal entry at every position; n around word boundaries */
    static const int NQ[] = {2, 3, 17, 63, 64, 65, 66}, NT[] = {2, 3, 9, 17, 33, 63, 64, 65, 66, 127, 128, 129, 130};
    const int *N = NT; int nn = 13; (void)NQ;
    for (int ni = 0; ni < nn; ni++) { int n = N[ni];
      for (int i = 0; i < n; i++) for (int j = i + 1; j < n; j++) {
        if (n > 20 && !vx_tier) { /* boundary rows/cols only */
          int bi = (i < 2 || i == 31 || i == 32 || i >= n - 3 || i == 62 || i == 63), bj = (j < 2 || j == 31 || j == 32 || j >= n - 3 || j == 62 || j == 63);
          if (!(bi && bj)) continue; }
        block(n, (i + j) % 2 ? 1 : 65, (tpat){1, i, j, 0}, (pat){P_O, 0, 0}, 0);   /* entry (i,j) of the upper / (j,i) handled via tri orientation below */
      }
    }
  } else if (!strcmp(mode, "dense")) {
    static const int NQ[] = {1, 2, 33, 63, 64, 65, 100, 127, 128, 129, 130, 192, 200, 257}, NT[] = {1, 2, 16, 33, 63, 64, 65, 66, 100, 127, 128, 129, 130, 191, 192, 193, 200, 255, 256, 257, 300, 384, 513};
    static const int W[] = {1, 2, 63, 64, 65, 129, -1, 100, 1000};
    const int *N = vx_tier ? NT : NQ; int nn = vx_tier ? 23 : 14;
    for (int ni = 0; ni < nn; ni++) for (int wi = 0; wi < 9; wi++) {
      int n = N[ni], w = W[wi] < 0 ? n : W[wi];
      if (!vx_tier && (wi == 1 || wi == 2)) continue;
      if (wi == 8 && n > 130) continue;
      block(n, w, (tpat){3, 0, ni, 0}, PRB, n <= 130);
      block(n, w, (tpat){2, 0, 0, 0}, (pat){P_O, 0, 0}, 0);
      block(n, w, (tpat){3, 1, ni, 0}, (pat){P_PR, 1, 6}, 0);
      if (vx_tier) { block(n, w, (tpat){3, 2, ni, 0}, (pat){P_LBL, ni % 7, 0}, 0); block(n, w, (tpat){3, 0, ni + 50, 0}, (pat){P_ID, 0, 0}, 0); }
    }
  } else if (!strcmp(mode, "widths")) {
    /* every word width 1..17 of the right-hand side (resp. every row count for the right variants): the row-addition kernels
       of the base cases are unrolled by 8 words with a switch on the remainder */
    static const int N[] = {33, 64, 65, 130, 200};
    for (int ni = 0; ni < 5; ni++) for (int words = 1; words <= 17; words++) for (int d = 0; d < 3; d++) {
      int w = 64 * words - (d == 0 ? 63 : d == 1 ? 1 : 0);
      if (!vx_tier && d == 0 && words > 2) continue;
      block(N[ni], w, (tpat){3, 0, ni + 7, 0}, PRB, 0);
      if (words % 4 == 1) block(N[ni], w, (tpat){2, 0, 0, 0}, (pat){P_O, 0, 0}, 0);
    }
  } else if (!strcmp(mode, "big")) {
    /* recursion thresholds of the configuration built */
    int bs = __M4RI_MUL_BLOCKSIZE;
    int ns[] = {bs - 1, bs, bs + 1, bs + 65, 2 * bs + 1, 2 * bs + 130};
    int ws[] = {1, 65, 200};
    for (int i = 0; i < 6; i++) for (int j = 0; j < 3; j++) {
      if (ns[i] > 1700) continue;
      block(ns[i], ws[j], (tpat){3, 0, 90 + i, 0}, PRB, 0);
      if (vx_tier) block(ns[i], ns[i], (tpat){3, 2, 91 + i, 0}, PRB, 0);
    }
  }
}
int main(int argc, char **argv) { return vx_main(argc, argv); }
