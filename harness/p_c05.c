/* C05: inversion routines return the true inverse of every invertible input. */
#include "vx.h"
const char *prop_id = "C05";

enum { I_M4RI_NEW, I_M4RI_SUP, I_NAIVE_NEW, I_NAIVE_SUP, I_N };
static const char *iname[] = {"mzd_inv_m4ri(NULL)", "mzd_inv_m4ri(B)", "mzd_invert_naive(NULL)", "mzd_invert_naive(INV)"};

static void check_inverse(const char *sig, const pm *A, const mzd_t *B, const char *desc) {
  if (!B) { vx_fail(sig, "inverse", "%s: NULL returned for an invertible matrix", desc); return; }
  if (B->nrows != A->r || B->ncols != A->c) { vx_fail(sig, "inverse", "%s: result has dimensions %dx%d", desc, B->nrows, B->ncols); return; }
  pm *Bp = pm_from_mzd(B), *I = pm_identity(A->r), *AB = pm_mul(A, Bp), *BA = pm_mul(Bp, A);
  if (!pm_eq(AB, I)) vx_fail(sig, "inverse", "%s: A*B != I", desc);
  else if (!pm_eq(BA, I)) vx_fail(sig, "inverse", "%s: B*A != I", desc);
  int pd = mzd_padding_dirty(B);
  if (pd >= 0) vx_fail(sig, "padding", "%s: non-zero bits beyond the last column in row %d", desc, pd);
  pm_free(Bp); pm_free(I); pm_free(AB); pm_free(BA);
}

/* general inversion of one invertible A */
static void inv_block(const pm *A, const char *desc, int rich) {
  static const int KS[] = {0, 1, 2, 3, 4, 5, 6, 7, 8, 9, 10};
  vx_group();
  for (int v = 0; v < I_N; v++) {
    int np = (v <= I_M4RI_SUP) ? (rich ? 11 : 2) : 1;
    for (int pi = 0; pi < np; pi++) {
      int k = (v <= I_M4RI_SUP) ? (rich ? KS[pi] : (pi ? 4 : 0)) : 0;
      if (!vx_case_begin("%s|k=%d|%s", iname[v], k, desc)) continue;
      int n = A->r;
      mzd_t *Az = mzd_from_pm(A), *B = NULL, *Bs = NULL;
      if (v == I_M4RI_SUP || v == I_NAIVE_SUP) { pm *o = pm_pat(n, n, (pat){P_O, 0, 0}); Bs = mzd_from_pm(o); pm_free(o); }
      if (v <= I_M4RI_SUP) B = mzd_inv_m4ri(Bs, Az, k);
      else { mzd_t *Id = mzd_init(n, n); mzd_set_ui(Id, 1); B = mzd_invert_naive(Bs, Az, Id); mzd_free(Id); }
      check_inverse(iname[v], A, B, desc);
      if (Bs && B && B != Bs) vx_fail(iname[v], "return-value", "%s: a different matrix than the supplied destination was returned", desc);
      VX_CHECK(mzd_eq_pm(Az, A) && mzd_padding_dirty(Az) < 0, iname[v], "operand-unchanged", "%s: A was modified", desc);
      vx_input(pm_hash(A) * 31 + (uint64_t)v * 101 + (uint64_t)k, A->r > 1);
      if (B && B != Bs) mzd_free(B);
      if (Bs) mzd_free(Bs);
      mzd_free(Az);
      vx_case_end();
    }
  }
}

/* in-place inversion of a unit upper triangular U */
static void trtri_block(const pm *U, const char *desc, int rich) {
  static const int KS[] = {0, 1, 2, 3, 4, 5, 6, 7, 8};
  vx_group();
  pm *Uinv = NULL;
  for (int v = 0; v < 2; v++) {
    int np = v ? (rich ? 9 : 2) : 1;
    for (int pi = 0; pi < np; pi++) {
      int k = v ? (rich ? KS[pi] : (pi ? 3 : 0)) : 0;
      const char *sig = v ? "mzd_trtri_upper_russian" : "mzd_trtri_upper";
      if (!vx_case_begin("%s|k=%d|%s", sig, k, desc)) continue;
      if (!Uinv) Uinv = pm_inverse(U);
      mzd_t *Uz = mzd_from_pm(U);
      if (v) mzd_trtri_upper_russian(Uz, k); else mzd_trtri_upper(Uz);
      if (!mzd_eq_pm(Uz, Uinv)) {
        pm *G = pm_from_mzd(Uz); int lower = 0, diag = 0;
        for (int i = 0; i < G->r; i++) for (int j = 0; j <= i; j++) { if (j < i && pm_get(G, i, j)) lower = 1; if (j == i && !pm_get(G, i, j)) diag = 1; }
        vx_fail(sig, "inverse", "%s: result is not the inverse%s%s", desc, lower ? " (entries below the diagonal)" : "", diag ? " (diagonal not unit)" : "");
        pm_free(G);
      }
      int pd = mzd_padding_dirty(Uz);
      if (pd >= 0) vx_fail(sig, "padding", "%s: non-zero bits beyond the last column in row %d", desc, pd);
      vx_input(pm_hash(U) * 17 + (uint64_t)v * 5 + (uint64_t)k, U->r > 1);
      mzd_free(Uz);
      vx_case_end();
    }
  }
  if (Uinv) pm_free(Uinv);
}

static pm *from_bits(int n, uint64_t x) { pm *A = pm_new(n, n); for (int i = 0; i < n * n; i++) pm_set(A, i / n, i % n, (int)((x >> i) & 1)); return A; }
static pm *ut_from_bits(int n, uint64_t x) { pm *A = pm_identity(n); int idx = 0; for (int i = 0; i < n; i++) for (int j = i + 1; j < n; j++) { pm_set(A, i, j, (int)((x >> idx) & 1)); idx++; } return A; }

void prop_enumerate(void) {
  const char *mode = vx_arg("mode", "gl");
  char desc[160];
  if (!strcmp(mode, "gl")) {
    /* all of GL_n(2), n <= 4 (5 thorough) */
    int nmax = vx_tier ? 5 : 4;
    for (int n = 1; n <= nmax; n++) for (uint64_t x = 0; x < (1ULL << (n * n)); x++) {
      pm *A = from_bits(n, x);
      /* cheap invertibility test on the packed bits */
      if (pm_rank(A) == n) { snprintf(desc, sizeof desc, "GL(%d,0x%llx)", n, (unsigned long long)x); inv_block(A, desc, 0); }
      pm_free(A);
    }
  } else if (!strcmp(mode, "ut")) {
    /* all unit upper triangular n <= 6, and their lifts */
    int nmax = vx_tier ? 7 : 6;
    for (int n = 1; n <= nmax; n++) for (uint64_t x = 0; x < (1ULL << (n * (n - 1) / 2)); x++) {
      pm *U = ut_from_bits(n, x); snprintf(desc, sizeof desc, "UT(%d,0x%llx)", n, (unsigned long long)x);
      trtri_block(U, desc, 0);
      if (n <= 4 || (x % 7 == 0)) inv_block(U, desc, 0);
      pm_free(U);
    }
  } else if (!strcmp(mode, "lift")) {
    static const int BQ[] = {7, 33, 65}, BT[] = {7, 33, 64, 65};
    const int *B = vx_tier ? BT : BQ; int nb = vx_tier ? 4 : 3;
    /* lifts of all unit upper triangular n <= 4 (5) by identity / unit-upper dense blocks: again unit upper triangular */
    int nmax = vx_tier ? 5 : 4;
    for (int n = 2; n <= nmax; n++) for (uint64_t x = 0; x < (1ULL << (n * (n - 1) / 2)); x++) for (int bi = 0; bi < nb; bi++) for (int J = 0; J < 2; J++) {
      pm *M = ut_from_bits(n, x), *Jm = J ? pm_unit_upper(B[bi], 7, 0) : pm_identity(B[bi]), *U = pm_kron(M, Jm);
      snprintf(desc, sizeof desc, "LIFT(UT(%d,0x%llx),b=%d,J=%d)", n, (unsigned long long)x, B[bi], J);
      trtri_block(U, desc, 0);
      pm_free(M); pm_free(Jm); pm_free(U);
    }
    /* lifts of GL_n(2), n <= 3, by dense invertible blocks: invertible iff both factors are */
    for (int n = 1; n <= 3; n++) for (uint64_t x = 0; x < (1ULL << (n * n)); x++) {
      pm *M = from_bits(n, x);
      if (pm_rank(M) == n) for (int bi = 0; bi < nb; bi++) for (int J = 0; J < 2; J++) {
        pm *Jm = J ? pm_dense_invertible(B[bi], 5) : pm_identity(B[bi]), *A = pm_kron(M, Jm);
        snprintf(desc, sizeof desc, "LIFT(GL(%d,0x%llx),b=%d,J=%d)", n, (unsigned long long)x, B[bi], J);
        inv_block(A, desc, 0);
        pm_free(Jm); pm_free(A);
      }
      pm_free(M);
    }
  } else if (!strcmp(mode, "bnd")) {
    static const int NQ[] = {1, 2, 63, 64, 65, 127, 128, 129, 192, 200, 257}, NT[] = {1, 2, 3, 31, 32, 33, 63, 64, 65, 66, 100, 127, 128, 129, 130, 191, 192, 193, 200, 255, 256, 257, 300};
    const int *N = vx_tier ? NT : NQ; int nn = vx_tier ? 23 : 11;
    for (int i = 0; i < nn; i++) for (int s = 0; s < (vx_tier ? 3 : 2); s++) {
      int n = N[i];
      pm *A = pm_dense_invertible(n, s); snprintf(desc, sizeof desc, "DENSE(%d,salt=%d)", n, s); inv_block(A, desc, n <= 130 && s == 0); pm_free(A);
      for (int d = 0; d < 3; d++) { pm *U = pm_unit_upper(n, s, d); snprintf(desc, sizeof desc, "UTPR(%d,salt=%d,dens=%d)", n, s, d); trtri_block(U, desc, n <= 130 && s == 0 && d == 0); if (d == 0 && s == 0) inv_block(U, desc, 0); pm_free(U); }
      /* permutation matrices (rotation) and full upper triangle */
      { pm *Pm = pm_new(n, n); for (int r = 0; r < n; r++) pm_set(Pm, r, (r + 1 + s) % n, 1); snprintf(desc, sizeof desc, "ROT(%d,%d)", n, s + 1); inv_block(Pm, desc, 0); pm_free(Pm); }
      { pm *F = pm_new(n, n); for (int r = 0; r < n; r++) for (int c = r; c < n; c++) pm_set(F, r, c, 1); snprintf(desc, sizeof desc, "FULLUT(%d)", n); if (s == 0) { trtri_block(F, desc, 0); inv_block(F, desc, 0); } pm_free(F); }
    }
  } else if (!strcmp(mode, "big")) {
    /* recursive branch of mzd_trtri_upper: nrows*ncols >= 2*L3 */
    long lim = (long)__M4RI_CPU_L3_CACHE << 1; int n0 = 1; while ((long)n0 * n0 < lim) n0++;
    if (n0 <= 1400) {
      /* 513 / 769: the automatic table parameter reaches 7 there, which is where the cache-size heuristic of the Four-Russians
         inversion (0.75 * 2^k * n > L3 / 2) starts to lower it; every explicit k is run on 200 and 513 for the same reason */
      int ns[] = {n0 - 1, n0, 513, 769, n0 + 1, n0 + 64, 200};
      for (int i = 0; i < (vx_tier ? 7 : 4); i++) for (int d = 0; d < 2; d++) { pm *U = pm_unit_upper(ns[i], 3, d); snprintf(desc, sizeof desc, "UTPR(%d,dens=%d)", ns[i], d); trtri_block(U, desc, d == 0 && (ns[i] == 513 || ns[i] == 200)); pm_free(U); }
      if (!vx_tier) { pm *U = pm_unit_upper(200, 3, 0); snprintf(desc, sizeof desc, "UTPR(%d,dens=%d)", 200, 0); trtri_block(U, desc, 1); pm_free(U); }
      pm *A = pm_dense_invertible(n0 + 1, 1); snprintf(desc, sizeof desc, "DENSE(%d)", n0 + 1); inv_block(A, desc, 0); pm_free(A);
    }
  }
}
int main(int argc, char **argv) { return vx_main(argc, argv); }
