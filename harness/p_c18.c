/* C18: file I/O round-trips exactly and malformed files cannot corrupt memory. */
#define _GNU_SOURCE
#include "vx.h"
#include <unistd.h>
#include <zlib.h>
const char *prop_id = "C18";

static char TMP[600];
static const char *tmpfile_path(const char *ext) { static char p[700]; snprintf(p, sizeof p, "%s/c18-%d.%s", TMP, (int)getpid(), ext); return p; }

/* ---------------- round trips ---------------- */
static void png_roundtrip(int r, int c, pat p, int level, int comment) {
  char b1[40];
  if (!vx_case_begin("png-roundtrip|%dx%d|%s|level=%d|comment=%d", r, c, pat_str(p, b1), level, comment)) return;
  pm *A = pm_pat(r, c, p); mzd_t *Az = mzd_from_pm(A);
  const char *fn = tmpfile_path("png");
  const char *cm = comment == 0 ? NULL : comment == 1 ? "" : "verification round trip \xc3\xa9 with some text";
  int rc = mzd_to_png(Az, fn, level, cm, 0);
  if (rc != 0) vx_fail("mzd_to_png", "write", "%dx%d: returned %d", r, c, rc);
  else {
    mzd_t *B = mzd_from_png(fn, 0);
    if (!B) vx_fail("mzd_from_png", "round-trip", "%dx%d %s level %d: file written by mzd_to_png could not be read back", r, c, b1, level);
    else {
      if (!mzd_eq_pm(B, A)) { pm *G = pm_from_mzd(B); int fi = -1, fj = -1; if (G->r == A->r && G->c == A->c) for (int i = 0; i < A->r && fi < 0; i++) for (int j = 0; j < A->c; j++) if (pm_get(G, i, j) != pm_get(A, i, j)) { fi = i; fj = j; break; }
        vx_fail("mzd_from_png(mzd_to_png)", "round-trip", "%dx%d %s level %d: matrix read back (%dx%d) differs, first at (%d,%d)", r, c, b1, level, G->r, G->c, fi, fj); pm_free(G); }
      if (mzd_padding_dirty(B) >= 0) vx_fail("mzd_from_png", "padding", "%dx%d: non-zero bits beyond the last column", r, c);
      mzd_free(B);
    }
  }
  VX_CHECK(mzd_eq_pm(Az, A), "mzd_to_png", "source-unchanged", "%dx%d", r, c);
  unlink(fn);
  vx_input(pm_hash(A) ^ ((uint64_t)(level + 2) << 56) ^ ((uint64_t)comment << 52), !pm_is_zero(A));
  mzd_free(Az); pm_free(A);
  vx_case_end();
}
static void mode_roundtrip(void) {
  int cols[160], nc = 0; for (int c = 1; c <= 130; c++) cols[nc++] = c;
  int extra[] = {191, 192, 193, 255, 256, 257, 511, 512, 513}; for (int i = 0; i < 9; i++) cols[nc++] = extra[i];
  static const int RS[] = {1, 2, 9};
  for (int ri = 0; ri < 3; ri++) for (int ci = 0; ci < nc; ci++) { int r = RS[ri], c = cols[ci], nb = lbl_bits(r, c);
    png_roundtrip(r, c, (pat){P_Z, 0, 0}, -1, 0); png_roundtrip(r, c, (pat){P_O, 0, 0}, -1, 1); png_roundtrip(r, c, (pat){P_PR, 0, 1}, -1, 2);
    for (int b = 0; b < nb; b++) { png_roundtrip(r, c, (pat){P_LBL, b, 0}, 6, 0); if (vx_tier || ri == 0) png_roundtrip(r, c, (pat){P_NLBL, b, 0}, 1, 2); }
    if (c <= 70 && (ri == 0 || vx_tier)) for (int i = 0; i < r; i++) for (int j = 0; j < c; j++) png_roundtrip(r, c, (pat){P_U, i, j}, -1, 0);
    /* every compression level x comment on a dense pattern, for widths in every residue class mod 8 around word boundaries */
    if (ri == 2 && (c <= 17 || (c >= 60 && c <= 72) || c >= 126)) for (int level = -1; level <= 9; level++) for (int cm = 0; cm < 3; cm++) png_roundtrip(r, c, (pat){P_PR, 0, 2}, level, cm);
  }
}

static void mode_str(void) {
  /* all strings for matrices with <= 12 entries, unit strings up to 130 columns */
  int N = vx_tier ? 14 : 12;
  for (int r = 1; r <= N; r++) for (int c = 1; r * c <= N; c++) {
    if (!vx_case_begin("from_str|all|%dx%d", r, c)) continue;
    uint64_t ne = 0; char str[32];
    for (uint64_t x = 0; x < (1ULL << (r * c)); x++) {
      for (int i = 0; i < r * c; i++) str[i] = ((x >> i) & 1) ? '1' : '0'; str[r * c] = 0;
      mzd_t *A = mzd_from_str(r, c, str); ne++;
      int ok = 1; for (int i = 0; i < r * c && ok; i++) { int b = (int)((((const uint64_t *)A->data)[(size_t)(i / c) * A->rowstride + ((i % c) >> 6)] >> ((i % c) & 63)) & 1); if (b != (int)((x >> i) & 1)) ok = 0; }
      if (!ok || mzd_padding_dirty(A) >= 0 || A->nrows != r || A->ncols != c) { vx_fail("mzd_from_str", "denotation", "%dx%d string %s", r, c, str); mzd_free(A); break; }
      mzd_free(A);
    }
    vx_count("evals", ne); vx_input(0xC18000 + (uint64_t)(r * 64 + c), 1);
    vx_case_end();
  }
  for (int c = 1; c <= 130; c++) {
    if (!vx_case_begin("from_str|units|3x%d", c)) continue;
    char *str = vx_malloc((size_t)3 * c + 1); uint64_t ne = 0;
    for (int pos = 0; pos < 3 * c; pos++) {
      for (int i = 0; i < 3 * c; i++) str[i] = (i == pos) ? '1' : ((i % 7 == 3) ? ' ' : '0'); /* any character other than '1' denotes zero */
      str[3 * c] = 0;
      mzd_t *A = mzd_from_str(3, c, str); pm *E = pm_new(3, c); pm_set(E, pos / c, pos % c, 1); ne++;
      if (!mzd_eq_pm(A, E) || mzd_padding_dirty(A) >= 0) { vx_fail("mzd_from_str", "denotation", "3x%d unit at %d", c, pos); pm_free(E); mzd_free(A); break; }
      pm_free(E); mzd_free(A);
    }
    vx_free(str);
    vx_count("evals", ne); vx_input(0xC18100 + (uint64_t)c, 1);
    vx_case_end();
  }
}

/* ---------------- JCF ---------------- */
static void write_text(const char *fn, const char *txt) { FILE *f = fopen(fn, "w"); fputs(txt, f); fclose(f); }
typedef struct { const char *fn; int r, c; const pm *E; } jarg;
/* child: 0 = NULL, 1 = matrix equal to E (if given) with clean padding, 2 = matrix but wrong content/dims/padding, 3 = matrix (no expectation) */
static uint64_t jcf_child(void *a) {
  jarg *q = a; mzd_t *A = mzd_from_jcf(q->fn, 0);
  if (!A) return 0;
  if (mzd_padding_dirty(A) >= 0) return 2;
  if (q->E) return mzd_eq_pm(A, q->E) ? 1 : 2;
  return (A->nrows == q->r && A->ncols == q->c) ? 3 : 2;
}
static size_t jcf_text(char *buf, size_t n, const pm *A, int with_count) {
  size_t o = 0; long nz = 0; for (int i = 0; i < A->r; i++) for (int j = 0; j < A->c; j++) nz += pm_get(A, i, j);
  o += (size_t)snprintf(buf + o, n - o, "%d %d 2\n%ld\n\n", A->r, A->c, with_count ? nz : nz + 5);
  for (int i = 0; i < A->r; i++) { int first = 1;
    for (int j = 0; j < A->c; j++) if (pm_get(A, i, j)) { o += (size_t)snprintf(buf + o, n - o, "%d\n", first ? -(j + 1) : (j + 1)); first = 0; }
    if (first) return 0; /* JCF cannot express an empty row */ }
  return o;
}
static void mode_jcf(void) {
  static char buf[1 << 20];
  /* valid files: every row non-empty; shapes around word boundaries */
  static const int CS[] = {1, 2, 7, 63, 64, 65, 127, 128, 129, 130, 200};
  for (int ci = 0; ci < 11; ci++) for (int r = 1; r <= 5; r += 2) for (int p = 0; p < 4; p++) {
    int c = CS[ci];
    if (!vx_case_begin("jcf-valid|%dx%d|pat=%d", r, c, p)) continue;
    pm *A = pm_pat(r, c, p == 0 ? (pat){P_O, 0, 0} : p == 1 ? (pat){P_PR, 0, 1} : p == 2 ? (pat){P_PR, 1, 2} : (pat){P_ANTI, 0, 0});
    for (int i = 0; i < r; i++) { int any = 0; for (int j = 0; j < c; j++) any |= pm_get(A, i, j); if (!any) pm_set(A, i, (i * 37) % c, 1); }
    size_t len = jcf_text(buf, sizeof buf, A, p & 1); (void)len;
    const char *fn = tmpfile_path("jcf"); write_text(fn, buf);
    mzd_t *B = mzd_from_jcf(fn, 0);
    if (!B) vx_fail("mzd_from_jcf", "denotation", "%dx%d: valid file rejected", r, c);
    else { if (!mzd_eq_pm(B, A)) vx_fail("mzd_from_jcf", "denotation", "%dx%d pattern %d: matrix differs from the one the text denotes", r, c, p); if (mzd_padding_dirty(B) >= 0) vx_fail("mzd_from_jcf", "padding", "%dx%d", r, c); mzd_free(B); }
    unlink(fn); vx_input(pm_hash(A), 1); pm_free(A);
    vx_case_end();
  }
  /* malformed: single-token replacements on base files */
  static const int BS[][2] = {{2, 5}, {3, 64}, {2, 65}, {4, 128}, {1, 130}, {3, 7}};
  for (int bi = 0; bi < 6; bi++) {
    int r = BS[bi][0], c = BS[bi][1];
    /* base: two entries per row */
    int tok[64], nt = 0; for (int i = 0; i < r; i++) { tok[nt++] = -(1 + (i * 3) % c); tok[nt++] = c; }
    enum { M_ZERO, M_POSFIRST, M_TOOBIG, M_NEGTOOBIG, M_EXTRAROW, M_MODULUS, M_MISSINGHDR, M_EMPTY, M_NONNUM, M_TRUNC, M_NEGZERO_ROWS, M_HUGE, M_N };
    static const char *mn[] = {"index-0", "positive-first-entry", "index=ncols+1", "index=-(ncols+1)", "extra-row", "modulus-3", "missing-header-field", "empty-file", "non-numeric-token", "truncated-body", "negative-dimension", "huge-index"};
    for (int mut = 0; mut < M_N; mut++) for (int pos = 0; pos < nt; pos++) {
      if ((mut == M_POSFIRST || mut == M_MODULUS || mut == M_MISSINGHDR || mut == M_EMPTY || mut == M_EXTRAROW || mut == M_NEGZERO_ROWS) && pos > 0) continue;
      if (!vx_case_begin("jcf-malformed|%dx%d|%s|token=%d", r, c, mn[mut], pos)) continue;
      char sig[64]; snprintf(sig, sizeof sig, "mzd_from_jcf|%s", mn[mut]);
      size_t o = 0; int rr = r, p = 2; int t2[80], n2 = 0; for (int i = 0; i < nt; i++) t2[n2++] = tok[i];
      int must_reject = 1;
      switch (mut) {
      case M_ZERO: t2[pos] = 0; break;
      case M_POSFIRST: t2[0] = -t2[0]; break;
      case M_TOOBIG: t2[pos] = c + 1; if (pos % 2 == 0) { /* replaces the row-start token: the following positive entry then belongs to the previous row */ } break;
      case M_NEGTOOBIG: t2[pos] = -(c + 1); break;
      case M_EXTRAROW: t2[n2++] = -1; break;
      case M_MODULUS: p = 3; break;
      case M_HUGE: t2[pos] = 2000000000; break;
      case M_NEGZERO_ROWS: rr = -r; must_reject = 0; break;
      default: break;
      }
      if (mut == M_EMPTY) buf[0] = 0;
      else if (mut == M_MISSINGHDR) o += (size_t)snprintf(buf + o, sizeof buf - o, "%d %d\n", rr, c);
      else {
        o += (size_t)snprintf(buf + o, sizeof buf - o, "%d %d %d\n%d\n\n", rr, c, p, nt);
        for (int i = 0; i < n2; i++) { if (mut == M_NONNUM && i == pos) { o += (size_t)snprintf(buf + o, sizeof buf - o, "x7\n"); must_reject = 0; continue; } if (mut == M_TRUNC && i > pos) { must_reject = 0; break; } o += (size_t)snprintf(buf + o, sizeof buf - o, "%d\n", t2[i]); }
      }
      if (mut == M_TRUNC) must_reject = 0;
      if (mut == M_POSFIRST && 0) must_reject = 1;
      /* index 0 at a row-start position: "-0" does not exist; token 0 is a zero index in every position */
      const char *fn = tmpfile_path("jcf"); write_text(fn, buf);
      jarg a = {fn, r, c, NULL};
      vx_fate ft = vx_fork_call(jcf_child, &a, 20);
      if (ft.fate == 2 || ft.fate == 3 || ft.fate == 4 || ft.fate == 6) vx_fail(sig, "memory-safety", "%dx%d token %d: fate %d signal %d: %s", r, c, pos, ft.fate, ft.sig, ft.note);
      else if (ft.fate == 0 && ft.ret != 0 && must_reject) vx_fail(sig, "not-rejected", "%dx%d token %d: a matrix was returned for a malformed file", r, c, pos);
      else if (ft.fate == 0 && ft.ret == 2) vx_fail(sig, "bad-matrix", "%dx%d token %d: returned matrix has wrong dimensions or dirty padding", r, c, pos);
      unlink(fn);
      vx_count("malformed_files", 1); vx_input(((uint64_t)bi << 40) ^ ((uint64_t)mut << 20) ^ (uint64_t)pos ^ 0xF00, 1);
      vx_case_end();
    }
  }
}

/* ---------------- malformed / unsupported PNG files (own writer, independent of mzd_to_png) ---------------- */
static void put32(unsigned char *p, uint32_t v) { p[0] = (unsigned char)(v >> 24); p[1] = (unsigned char)(v >> 16); p[2] = (unsigned char)(v >> 8); p[3] = (unsigned char)v; }
static size_t chunk(unsigned char *out, const char *type, const unsigned char *data, size_t n) {
  put32(out, (uint32_t)n); memcpy(out + 4, type, 4); if (n) memcpy(out + 8, data, n);
  uint32_t crc = (uint32_t)crc32(0L, out + 4, (uInt)(n + 4)); put32(out + 8 + n, crc); return n + 12;
}
static int channels_of(int ct) { return ct == 0 ? 1 : ct == 2 ? 3 : ct == 3 ? 1 : ct == 4 ? 2 : 4; }
static int legal(int depth, int ct) { if (ct == 0) return 1; if (ct == 3) return depth <= 8; return depth == 8 || depth == 16; }
static size_t build_png(unsigned char *out, int w, int h, int depth, int ct, int interlace, uint64_t salt) {
  static const unsigned char sig[8] = {0x89, 'P', 'N', 'G', 0x0d, 0x0a, 0x1a, 0x0a};
  size_t o = 0; memcpy(out, sig, 8); o = 8;
  unsigned char ihdr[13]; put32(ihdr, (uint32_t)w); put32(ihdr + 4, (uint32_t)h); ihdr[8] = (unsigned char)depth; ihdr[9] = (unsigned char)ct; ihdr[10] = 0; ihdr[11] = 0; ihdr[12] = (unsigned char)interlace;
  o += chunk(out + o, "IHDR", ihdr, 13);
  if (ct == 3) { unsigned char plte[6] = {0, 0, 0, 255, 255, 255}; o += chunk(out + o, "PLTE", plte, 6); }
  /* raw image data: non-interlaced layout (for interlace=1 the data is formally wrong in places, which is fine: the reader must cope) */
  size_t rowbytes = ((size_t)w * (size_t)depth * (size_t)channels_of(ct) + 7) / 8;
  size_t rawn = (rowbytes + 1) * (size_t)h * (interlace ? 2 : 1);
  unsigned char *raw = vx_malloc(rawn + 16); uint64_t st = salt | 1;
  for (size_t i = 0; i < rawn; i++) raw[i] = (i % (rowbytes + 1) == 0) ? 0 : (unsigned char)vx_rand(&st);
  uLongf zn = compressBound((uLong)rawn); unsigned char *z = vx_malloc(zn + 16);
  compress2(z, &zn, raw, (uLong)rawn, 6);
  o += chunk(out + o, "IDAT", z, zn);
  o += chunk(out + o, "IEND", NULL, 0);
  vx_free(raw); vx_free(z);
  return o;
}
typedef struct { const char *fn; int w, h; } parg;
static uint64_t png_child(void *a) {
  parg *q = a; mzd_t *A = mzd_from_png(q->fn, 0);
  if (!A) return 0;
  if (A->nrows != q->h || A->ncols != q->w) return 2;
  if (mzd_padding_dirty(A) >= 0) return 4;
  return 1;
}
static void png_case(const unsigned char *file, size_t n, int w, int h, int supported, int pristine, const char *desc, const char *mut) {
  const char *fn = tmpfile_path("png");
  FILE *f = fopen(fn, "wb"); if (n) fwrite(file, 1, n, f); fclose(f);
  parg a = {fn, w, h};
  vx_fate ft = vx_fork_call(png_child, &a, 20);
  char sig[96]; snprintf(sig, sizeof sig, "mzd_from_png|%s", mut);
  if (ft.fate == 2 || ft.fate == 3 || ft.fate == 4 || ft.fate == 6) vx_fail(sig, "memory-safety", "%s: fate %d signal %d: %s", desc, ft.fate, ft.sig, ft.note);
  else if (ft.fate == 0 && ft.ret != 0 && !supported) vx_fail(sig, "unsupported-not-rejected", "%s: a matrix was returned for an unsupported image format", desc);
  else if (ft.fate == 0 && (ft.ret == 2 || ft.ret == 4) && pristine) vx_fail(sig, "bad-matrix", "%s: returned matrix has %s", desc, ft.ret == 2 ? "dimensions other than the IHDR's" : "non-zero padding");
  else if (ft.fate == 0 && ft.ret == 0 && supported && pristine) vx_fail(sig, "valid-rejected", "%s: a valid 1-bit grayscale/palette file was rejected", desc);
  unlink(fn);
  vx_count("malformed_files", 1);
}
static void mode_png(void) {
  static const int DEPTH[] = {1, 2, 4, 8, 16}, CT[] = {0, 2, 3, 4, 6};
  static const int DIM[][2] = {{9, 5}, {70, 3}, {64, 2}, {1, 1}, {129, 2}};
  static unsigned char file[1 << 16], mutd[1 << 16];
  for (int di = 0; di < 5; di++) for (int a = 0; a < 5; a++) for (int b = 0; b < 5; b++) for (int il = 0; il < 2; il++) {
    int depth = DEPTH[a], ct = CT[b], w = DIM[di][0], h = DIM[di][1];
    if (!legal(depth, ct)) continue;
    int supported = (depth == 1 && (ct == 0 || ct == 3) && il == 0);
    vx_group();
    size_t n = 0;
    char desc[128]; snprintf(desc, sizeof desc, "%dx%d depth %d colour type %d interlace %d", w, h, depth, ct, il);
    if (vx_case_begin("png|%s|pristine", desc)) { n = build_png(file, w, h, depth, ct, il, 77); png_case(file, n, w, h, supported, 1, desc, "pristine"); vx_input(((uint64_t)di << 48) ^ ((uint64_t)a << 40) ^ ((uint64_t)b << 32) ^ ((uint64_t)il << 31), 1); vx_case_end(); }
    if (!vx_tier) { /* quick: byte-level mutations for the supported formats and four unsupported ones, on one size (two for 1-bit gray) */
      int sel = il == 0 && ((depth == 1 && ct == 0 && di <= 1) || (di == 0 && ((depth == 1 && ct == 3) || (depth == 8 && ct == 0) || (depth == 8 && ct == 2) || (depth == 16 && ct == 6) || (depth == 2 && ct == 3))));
      if (!sel) continue; }
    /* every truncation length (one case per 16 lengths), every single byte xor 0x01 / 0xFF */
    size_t maxn = 700;
    for (size_t blk = 0; blk < maxn; blk += 16) {
      if (!vx_case_begin("png|%s|truncate@%zu..%zu", desc, blk, blk + 15)) continue;
      n = build_png(file, w, h, depth, ct, il, 77);
      for (size_t len = blk; len < blk + 16 && len < n; len++) png_case(file, len, w, h, supported, 0, desc, "truncated");
      vx_input(((uint64_t)di << 48) ^ ((uint64_t)a << 40) ^ ((uint64_t)b << 32) ^ ((uint64_t)il << 31) ^ (uint64_t)(blk + 1), blk < n);
      vx_case_end();
    }
    for (size_t blk = 0; blk < maxn; blk += 8) for (int x = 0; x < 2; x++) {
      if (!vx_case_begin("png|%s|flip%s@%zu..%zu", desc, x ? "FF" : "01", blk, blk + 7)) continue;
      n = build_png(file, w, h, depth, ct, il, 77);
      for (size_t pos = blk; pos < blk + 8 && pos < n; pos++) { memcpy(mutd, file, n); mutd[pos] ^= x ? 0xFF : 0x01;
        /* a flip inside IHDR may turn the file into a supported/unsupported one: only memory safety and "no matrix for an unsupported IHDR" are judged when the IHDR is intact */
        int ihdr_intact = !(pos >= 8 && pos < 8 + 25);
        png_case(mutd, n, w, h, ihdr_intact ? supported : 1, 0, desc, x ? "byte-xor-FF" : "byte-xor-01"); }
      vx_input(((uint64_t)di << 48) ^ ((uint64_t)a << 40) ^ ((uint64_t)b << 32) ^ ((uint64_t)il << 31) ^ (uint64_t)(blk + 1) ^ ((uint64_t)(x + 1) << 20), blk < n);
      vx_case_end();
    }
  }
}

void prop_enumerate(void) {
  snprintf(TMP, sizeof TMP, "%s", vx_arg("errdir", "/tmp"));
  const char *mode = vx_arg("mode", "roundtrip");
  if (!strcmp(mode, "roundtrip")) mode_roundtrip();
  else if (!strcmp(mode, "str")) mode_str();
  else if (!strcmp(mode, "jcf")) mode_jcf();
  else if (!strcmp(mode, "png")) mode_png();
}
int main(int argc, char **argv) { return vx_main(argc, argv); }
