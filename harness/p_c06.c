/* C06: linear system solving - consistency verdict and A*X = B. */
#include "rankgen.h"
const char *prop_id = "C06";

enum { S_SOLVE, S_PLUQ_SOLVE, S_SOLVE_NOCHECK, S_N };
static const char *sname[] = {"mzd_solve_left", "mzd_pluq+mzd_pluq_solve_left", "mzd_solve_left(check=0)"};

/* one system: A (m x n), B (max(m,n) x w) */
static void solve_case(int v, int cutoff, const pm *A, const pm *B, int solvable, const char *desc) {
  char sig[64]; snprintf(sig, sizeof sig, "%s", sname[v]);
  int m = A->r, n = A->c;
  mzd_t *Az = mzd_from_pm(A), *Bz = mzd_from_pm(B);
  int ret = 0;
  if (v == S_SOLVE) ret = mzd_solve_left(Az, Bz, cutoff, 1);
  else if (v == S_SOLVE_NOCHECK) ret = mzd_solve_left(Az, Bz, cutoff, 0);
  else {
    mzp_t *P = mzp_init(m), *Q = mzp_init(n);
    rci_t r = mzd_pluq(Az, P, Q, cutoff);
    ret = mzd_pluq_solve_left(Az, r, P, Q, Bz, cutoff, 1);
    mzp_free(P); mzp_free(Q);
  }
  if (v != S_SOLVE_NOCHECK) {
    if (solvable && ret != 0) vx_fail(sig, "verdict", "%s: returned %d for a consistent system", desc, ret);
    if (!solvable && ret == 0) {
      /* where does the inconsistency sit? */
      int pad = 0; for (int i = m; i < B->r; i++) for (int j = 0; j < B->c; j++) if (pm_get(B, i, j)) pad = 1;
      vx_fail(sig, pad ? "verdict-padding-row" : "verdict", "%s: returned 0 for an inconsistent system%s", desc, pad ? " (non-zero right-hand side in a padding row)" : "");
    }
  }
  if (solvable && ret == 0) {
    pm *R = pm_from_mzd(Bz);
    pm *X = pm_sub(R, 0, 0, n, R->c);
    pm *AX = pm_mul(A, X);
    pm *B0 = pm_sub(B, 0, 0, m, B->c);
    if (!pm_eq(AX, B0)) vx_fail(sig, "solution", "%s: A*X differs from the original right-hand side", desc);
    pm_free(R); pm_free(X); pm_free(AX); pm_free(B0);
  }
  int pd = mzd_padding_dirty(Bz);
  if (pd >= 0) vx_fail(sig, "padding", "%s: non-zero bits beyond the last column of B in row %d", desc, pd);
  mzd_free(Az); mzd_free(Bz);
}

static int ref_solvable(const pm *A, const pm *B) {
  int rows = B->r;
  pm *Ap = pm_new(rows, A->c);
  memcpy(Ap->d, A->d, (size_t)A->r * A->w * 8);
  int s = pm_solvable(Ap, B);
  pm_free(Ap);
  return s;
}

static void run_system(const pm *A, const pm *B, const char *desc, int rich) {
  int solvable = -1;
  int cuts[] = {0, 64};
  for (int v = 0; v < S_N; v++) for (int ci = 0; ci < (rich ? 2 : 1); ci++) {
    if (!vx_case_begin("%s|cutoff=%d|%s", sname[v], cuts[ci], desc)) continue;
    if (solvable < 0) solvable = ref_solvable(A, B);
    if (v == S_SOLVE_NOCHECK && !solvable) { vx_case_end(); continue; }
    solve_case(v, cuts[ci], A, B, solvable, desc);
    vx_input(pm_hash(A) * 31 + pm_hash(B) * 17 + (uint64_t)v * 7 + (uint64_t)ci, !pm_is_zero(A) || !pm_is_zero(B));
    vx_case_end();
  }
}

/* all (A,B) with few entries */
static void tiny(int na, int nb) {
  for (int m = 1; m <= na; m++) for (int n = 1; m * n <= na; n++) {
    int rows = m > n ? m : n;
    for (int w = 1; w == 1 || rows * w <= nb; w++) {
      if (rows * w > 16) break;
      for (uint64_t a = 0; a < (1ULL << (m * n)); a++) {
        vx_group();
        pm *A = NULL;
        for (uint64_t b = 0; b < (1ULL << (rows * w)); b++) {
          char desc[128]; snprintf(desc, sizeof desc, "TINY(A=%dx%d:0x%llx,B=%dx%d:0x%llx)", m, n, (unsigned long long)a, rows, w, (unsigned long long)b);
          /* cheap pre-test: does this worker own the group? build lazily */
          int solv = -1;
          for (int v = 0; v < S_N; v++) {
            if (!vx_case_begin("%s|cutoff=0|%s", sname[v], desc)) continue;
            if (!A) { A = pm_new(m, n); for (int i = 0; i < m * n; i++) pm_set(A, i / n, i % n, (int)((a >> i) & 1)); }
            pm *B = pm_new(rows, w); for (int i = 0; i < rows * w; i++) pm_set(B, i / w, i % w, (int)((b >> i) & 1));
            if (solv < 0) solv = ref_solvable(A, B);
            if (!(v == S_SOLVE_NOCHECK && !solv)) solve_case(v, 0, A, B, solv, desc);
            vx_input((a * 0x9E3779B97F4A7C15ULL) ^ (b * 0xC2B2AE3D27D4EB4FULL) ^ ((uint64_t)(m * 16 + n) << 56) ^ ((uint64_t)(w * 4 + v) << 48), a || b);
            pm_free(B);
            vx_case_end();
          }
        }
        if (A) pm_free(A);
      }
    }
  }
}

/* structured systems: B = A*X0 (consistent) and every single bit flip in a set of rows */
static void on_spec(const rk_spec *s, void *u) {
  if (s->fam == F_RECW && s->c > 9000) return; /* the kernel is n x (n-r) and the right-hand side has max(m,n) rows: the very wide members of the family are out of reach here (C03 runs them) */
  (void)u;
  char d0[128]; rk_str(s, d0, sizeof d0);
  pm *A = NULL;
  static const int WS[] = {1, 2, 64, 65};
  int nw = vx_tier ? 4 : 2;
  for (int wi = 0; wi < nw; wi++) {
    int w = WS[wi];
    /* peek dimensions cheaply: build lazily only if some case of the group runs */
    vx_group();
    /* we need dims to enumerate flips: build A (cost acceptable: structured families are small in number) */
    if (!A) A = rk_build(s);
    int m = A->r, n = A->c, rows = m > n ? m : n;
    pm *X0 = pm_pat(n, w, (pat){P_PR, 0, 70 + wi}), *AX = pm_mul(A, X0);
    pm *B = pm_new(rows, w);
    memcpy(B->d, AX->d, (size_t)m * AX->w * 8);
    char desc[200];
    snprintf(desc, sizeof desc, "%s|w=%d|B=A*X0", d0, w);
    run_system(A, B, desc, 1);
    /* flips: rows {0, last row of A, each padding row (up to 3: first, second, last), a middle row} x columns {0, w-1} */
    int frs[8], nf = 0;
    frs[nf++] = 0; frs[nf++] = m - 1; frs[nf++] = m / 2;
    if (rows > m) { frs[nf++] = m; if (m + 1 < rows) frs[nf++] = m + 1; frs[nf++] = rows - 1; }
    for (int fi = 0; fi < nf; fi++) for (int fc = 0; fc < (w > 1 ? 2 : 1); fc++) {
      int dup = 0; for (int q = 0; q < fi; q++) if (frs[q] == frs[fi]) dup = 1;
      if (dup) continue;
      int col = fc ? w - 1 : 0;
      pm_flip(B, frs[fi], col);
      snprintf(desc, sizeof desc, "%s|w=%d|B=A*X0^U(%d,%d)", d0, w, frs[fi], col);
      run_system(A, B, desc, 0);
      pm_flip(B, frs[fi], col);
    }
    pm_free(X0); pm_free(AX); pm_free(B);
  }
  if (A) pm_free(A);
}

void prop_enumerate(void) {
  const char *mode = vx_arg("mode", "tiny");
  if (!strcmp(mode, "tiny")) tiny(vx_tier ? 12 : 9, vx_tier ? 9 : 8);
  else if (!strcmp(mode, "lift")) rk_enumerate(1 << F_LIFT, 0, vx_tier ? 9 : 6, on_spec, NULL);
  else if (!strcmp(mode, "struct")) rk_enumerate((1 << F_ECH) | (1 << F_RK) | (1 << F_BND), 0, 0, on_spec, NULL);
  else if (!strcmp(mode, "rec")) rk_enumerate((1 << F_REC) | (1 << F_RECW), 0, 0, on_spec, NULL);
}
int main(int argc, char **argv) { return vx_main(argc, argv); }
