/* C19: Gray-code tables and word-level bit kernels - finite domains, enumerated completely. */
#include "vx.h"
const char *prop_id = "C19";

static int popc(uint64_t x) { int n = 0; while (x) { n += (int)(x & 1); x >>= 1; } return n; }
static int lsbi(uint64_t x) { if (!x) return 64; int i = 0; while (!((x >> i) & 1)) i++; return i; }

static void codebook(void) {
  for (int k = 1; k <= 16; k++) {
    if (!vx_case_begin("codebook|k=%d", k)) continue;
    char sig[64]; snprintf(sig, sizeof sig, "codebook");
    int n = 1 << k; const int *ord = m4ri_codebook[k]->ord, *inc = m4ri_codebook[k]->inc;
    unsigned char *seen = calloc((size_t)n, 1);
    int ok = 1;
    for (int i = 0; i < n && ok; i++) {
      if (ord[i] < 0 || ord[i] >= n) { vx_fail(sig, "range", "k=%d ord[%d]=%d outside 0..2^k-1", k, i, ord[i]); ok = 0; break; }
      if (seen[ord[i]]) { vx_fail(sig, "permutation", "k=%d value %d listed twice (second at i=%d)", k, ord[i], i); ok = 0; break; }
      seen[ord[i]] = 1;
      if (i) {
        int d = ord[i] ^ ord[i - 1];
        if (popc((uint64_t)d) != 1) { vx_fail(sig, "one-bit-step", "k=%d entries %d,%d differ in %d bits", k, i - 1, i, popc((uint64_t)d)); ok = 0; break; }
        if (inc[i - 1] != lsbi((uint64_t)d)) { vx_fail(sig, "increment", "k=%d inc[%d]=%d but entries differ in bit %d", k, i - 1, inc[i - 1], lsbi((uint64_t)d)); ok = 0; break; }
      }
    }
    if (ok && ord[0] != 0) vx_fail(sig, "start", "k=%d ord[0]=%d (table builders start from the zero row)", k, ord[0]);
    free(seen);
    vx_count("evals", (uint64_t)n); vx_input(0xC19000 + (uint64_t)k, 1);
    vx_case_end();
  }
}

/* mzd_make_table: for every x, T[L[x]] == sum of rows r+j (bit j of x set) restricted to columns >= c */
static void tables(void) {
  static const int ncolsv[] = {1, 2, 17, 63, 64, 65, 100, 127, 128, 129, 130, 192, 200, 511, 512, 513, 640, 641, 1100, 1217};
  int kmax = vx_tier ? 12 : 10;
  for (int k = 1; k <= kmax; k++)
    for (unsigned ci = 0; ci < sizeof ncolsv / sizeof *ncolsv; ci++) {
      int nc = ncolsv[ci];
      /* start columns: 0, every word boundary and +-1, last column */
      int cs[16], ncs = 0;
      cs[ncs++] = 0;
      if (nc > 1) cs[ncs++] = 1;
      if (nc > 63) cs[ncs++] = 63;
      if (nc > 64) cs[ncs++] = 64;
      if (nc > 65) cs[ncs++] = 65;
      if (nc > 130) cs[ncs++] = (nc / 64) * 64 - 64 + 33;
      if (nc > 64) cs[ncs++] = ((nc - 1) / 64) * 64;
      cs[ncs++] = nc - 1;
      for (int cj = 0; cj < ncs; cj++)
        for (int r = 0; r <= 3; r += 3)
          for (int pt = 0; pt < 4; pt++) {
            int c = cs[cj];
            if (!vx_case_begin("make_table|k=%d|ncols=%d|c=%d|r=%d|pat=%d", k, nc, c, r, pt)) continue;
            int nr = r + k + (pt & 1); /* table rows end exactly at / one before the last row */
            pat P = pt < 2 ? (pat){P_PR, 0, 5 + pt} : pt == 2 ? (pat){P_O, 0, 0} : (pat){P_LBL, (k + c) % lbl_bits(nr, nc), 0};
            pm *M = pm_pat(nr, nc, P);
            mzd_t *Mz = mzd_from_pm(M);
            int n = 1 << k;
            mzd_t *T = mzd_init(n, nc);
            /* dirty the table except row 0 (callers keep row 0 zero): every used entry must be rewritten */
            for (int i = 1; i < n; i++) for (int x = 0; x < T->width; x++) ((uint64_t *)T->data)[(size_t)i * T->rowstride + x] = ~0ULL;
            rci_t *L = malloc(sizeof(rci_t) * (size_t)n);
            for (int i = 0; i < n; i++) L[i] = -7;
            mzd_make_table(Mz, r, c, k, T, L);
            int bad = 0; int hb = c / 64;
            for (int x = 0; x < n && !bad; x++) {
              if (L[x] < 0 || L[x] >= n) { vx_fail("make_table", "index", "L[%d]=%d out of range", x, L[x]); bad = 1; break; }
              /* expected row */
              uint64_t *e = calloc((size_t)M->w + 1, 8);
              for (int j = 0; j < k; j++) if ((x >> j) & 1) for (int w = 0; w < M->w; w++) e[w] ^= M->d[(size_t)(r + j) * M->w + w];
              /* restrict to columns >= c */
              for (int col = hb * 64; col < c; col++) e[col >> 6] &= ~(1ULL << (col & 63));
              const uint64_t *t = (const uint64_t *)T->data + (size_t)L[x] * T->rowstride;
              for (int w = hb; w < M->w; w++) if (t[w] != e[w]) {
                vx_fail("make_table", "combination", "k=%d x=%d: T[L[x]] word %d = %016llx, expected %016llx (sum of rows selected by x from column %d on)", k, x, w, (unsigned long long)t[w], (unsigned long long)e[w], c);
                bad = 1; break;
              }
              free(e);
            }
            vx_count("evals", (uint64_t)n);
            vx_input(pm_hash(M) ^ ((uint64_t)k << 40) ^ ((uint64_t)c << 20) ^ (uint64_t)r, !pm_is_zero(M));
            free(L); mzd_free(T); mzd_free(Mz); pm_free(M);
            vx_case_end();
          }
    }
}

static void parity(void) {
  /* all 4096 single-bit buffers; all pairs of bits inside one buffer word for every word; PR buffers */
  if (vx_case_begin("parity64|single-bits")) {
    word buf[64];
    for (int w = 0; w < 64; w++) for (int b = 0; b < 64; b++) {
      memset(buf, 0, sizeof buf); buf[w] = 1ULL << b;
      word r = m4ri_parity64(buf);
      if (r != (1ULL << w)) { vx_fail("parity64", "single-bit", "word %d bit %d: result %016llx expected %016llx", w, b, (unsigned long long)r, 1ULL << w); goto p1; }
    }
  p1:
    vx_count("evals", 4096); vx_input(0xC19100, 1); vx_case_end();
  }
  for (int w = 0; w < 64; w++) {
    if (!vx_case_begin("parity64|pairs|word=%d", w)) continue;
    word buf[64]; uint64_t ne = 0;
    for (int a = 0; a < 64; a++) for (int b = a + 1; b < 64; b++) {
      memset(buf, 0, sizeof buf); buf[w] = (1ULL << a) | (1ULL << b);
      /* a second word with a single bit so that cross-talk between words shows */
      buf[(w + 17) % 64] ^= 1ULL << ((a + b) % 64);
      word r = m4ri_parity64(buf), e = 1ULL << ((w + 17) % 64);
      ne++;
      if (r != e) { vx_fail("parity64", "pairs", "word %d bits %d,%d: result %016llx expected %016llx", w, a, b, (unsigned long long)r, (unsigned long long)e); goto p2; }
    }
  p2:
    vx_count("evals", ne); vx_input(0xC19200 + (uint64_t)w, 1); vx_case_end();
  }
  for (int s = 0; s < 64; s++) {
    if (!vx_case_begin("parity64|dense|salt=%d", s)) continue;
    word buf[64]; uint64_t st = 0x1234567 + (uint64_t)s * 977 + vx_seed; word e = 0;
    for (int i = 0; i < 64; i++) { buf[i] = vx_rand(&st); if (s & 1) buf[i] &= vx_rand(&st); e |= (uint64_t)(popc(buf[i]) & 1) << i; }
    word r = m4ri_parity64(buf);
    VX_CHECK(r == e, "parity64", "dense", "result %016llx expected %016llx", (unsigned long long)r, (unsigned long long)e);
    vx_count("evals", 1); vx_input(st, 1); vx_case_end();
  }
}

static void masks(void) {
  if (vx_case_begin("masks|left-right-middle")) {
    uint64_t ne = 0;
    /* LEFT(n): n in 1..64 -> n low bits (n = 0 behaves as 64 per the documentation) */
    for (int n = 0; n <= 64; n++) {
      word m = __M4RI_LEFT_BITMASK(n), e = 0; int nn = (n == 0) ? 64 : n;
      for (int b = 0; b < nn; b++) e |= 1ULL << b;
      ne++;
      if (m != e) { vx_fail("bitmask", "left", "LEFT(%d) = %016llx expected %016llx", n, (unsigned long long)m, (unsigned long long)e); break; }
    }
    for (int n = 1; n <= 64; n++) {
      word m = __M4RI_RIGHT_BITMASK(n), e = 0;
      for (int b = 64 - n; b < 64; b++) e |= 1ULL << b;
      ne++;
      if (m != e) { vx_fail("bitmask", "right", "RIGHT(%d) = %016llx expected %016llx", n, (unsigned long long)m, (unsigned long long)e); break; }
    }
    for (int off = 0; off < 64; off++) for (int n = 1; n <= 64 - off; n++) {
      word m = __M4RI_MIDDLE_BITMASK(n, off), e = 0;
      for (int b = off; b < off + n; b++) e |= 1ULL << b;
      ne++;
      if (m != e) { vx_fail("bitmask", "middle", "MIDDLE(%d,%d) = %016llx expected %016llx", n, off, (unsigned long long)m, (unsigned long long)e); goto m1; }
    }
  m1:
    vx_count("evals", ne); vx_input(0xC19300, 1); vx_case_end();
  }
  if (vx_case_begin("swap_bits|single+pairs+dense")) {
    uint64_t ne = 0;
    for (int a = 0; a < 64; a++) for (int b = a; b < 64; b++) {
      word v = (1ULL << a) | (1ULL << b), e = (1ULL << (63 - a)) | (1ULL << (63 - b));
      ne++;
      if (m4ri_swap_bits(v) != e) { vx_fail("swap_bits", "reverse", "bits %d,%d", a, b); goto s1; }
    }
    uint64_t st = 99 + vx_seed;
    for (int i = 0; i < 4096; i++) {
      word v = vx_rand(&st), e = 0;
      for (int b = 0; b < 64; b++) if ((v >> b) & 1) e |= 1ULL << (63 - b);
      ne++;
      if (m4ri_swap_bits(v) != e) { vx_fail("swap_bits", "reverse", "dense %016llx", (unsigned long long)v); goto s1; }
    }
  s1:
    vx_count("evals", ne); vx_input(0xC19400, 1); vx_case_end();
  }
  if (vx_case_begin("lesser_LSB|all pairs of {0, single bits, two-bit words}")) {
    static word set[1 + 64 + 2016]; int n = 0; uint64_t ne = 0;
    set[n++] = 0;
    for (int a = 0; a < 64; a++) set[n++] = 1ULL << a;
    for (int a = 0; a < 64; a++) for (int b = a + 1; b < 64; b++) set[n++] = (1ULL << a) | (1ULL << b);
    for (int i = 0; i < n; i++) for (int j = 0; j < n; j++) {
      int r = m4ri_lesser_LSB(set[i], set[j]) ? 1 : 0, e = lsbi(set[i]) < lsbi(set[j]);
      ne++;
      if (r != e) { vx_fail("lesser_LSB", "order", "a=%016llx b=%016llx returned %d", (unsigned long long)set[i], (unsigned long long)set[j], r); goto l1; }
    }
  l1:
    vx_count("evals", ne); vx_input(0xC19500, 1); vx_case_end();
  }
}

/* spread/shrink: Q strictly increasing positions (relative to base), length <= 16 */
static int check_spread(const rci_t *Q, int len, int base, uint64_t *ne) {
  rci_t q[16]; memcpy(q, Q, sizeof(rci_t) * (size_t)len);
  /* complete basis of 'from': every single bit below len, plus all-ones and two dense words */
  for (int t = 0; t < len + 3; t++) {
    word from = t < len ? (1ULL << t) : t == len ? ((len == 64) ? ~0ULL : ((1ULL << len) - 1)) : (0x9E3779B97F4A7C15ULL >> (t - len)) & ((1ULL << len) - 1);
    word e = 0;
    for (int i = 0; i < len; i++) if ((from >> i) & 1) e |= 1ULL << (q[i] - base);
    word s = m4ri_spread_bits(from, q, len, base);
    (*ne)++;
    if (s != e) { vx_fail("spread_bits", "placement", "len=%d base=%d from=%llx got %016llx expected %016llx (Q[0]=%d)", len, base, (unsigned long long)from, (unsigned long long)s, (unsigned long long)e, q[0]); return 0; }
    word b = m4ri_shrink_bits(s, q, len, base);
    if (b != from) { vx_fail("shrink_bits", "inverse", "len=%d base=%d shrink(spread(%llx)) = %llx", len, base, (unsigned long long)from, (unsigned long long)b); return 0; }
    /* shrink ignores bits not named by Q */
    word junk = s | ~e;
    word b2 = m4ri_shrink_bits(junk, q, len, base);
    word allsel = 0; for (int i = 0; i < len; i++) allsel |= 1ULL << (q[i] - base);
    word e2 = 0; for (int i = 0; i < len; i++) if ((junk >> (q[i] - base)) & 1) e2 |= 1ULL << i;
    (void)allsel;
    if (b2 != e2) { vx_fail("shrink_bits", "selection", "len=%d base=%d", len, base); return 0; }
  }
  return 1;
}
static void spread(void) {
  /* all strictly increasing Q of length <= 4 over 64 positions: one case per (length, first position) */
  for (int len = 1; len <= 4; len++) for (int q0 = 0; q0 < 64; q0++) {
    if (!vx_case_begin("spread_shrink|len=%d|q0=%d", len, q0)) continue;
    uint64_t ne = 0; rci_t Q[4]; int ok = 1;
    Q[0] = q0;
    if (len == 1) ok = check_spread(Q, 1, 0, &ne);
    else for (int a = q0 + 1; a < 64 && ok; a++) { Q[1] = a;
      if (len == 2) ok = check_spread(Q, 2, 0, &ne);
      else for (int b = a + 1; b < 64 && ok; b++) { Q[2] = b;
        if (len == 3) ok = check_spread(Q, 3, 0, &ne);
        else for (int c = b + 1; c < 64 && ok; c++) { Q[3] = c; ok = check_spread(Q, 4, 0, &ne); } } }
    vx_count("evals", ne); vx_input(0xC19600 + (uint64_t)(len * 64 + q0), 1); vx_case_end();
  }
  /* structured Q of length 5..16: arithmetic progressions with every step and start, with a non-zero base */
  for (int len = 5; len <= 16; len++) for (int step = 1; (len - 1) * step < 64; step++) {
    if (!vx_case_begin("spread_shrink|len=%d|step=%d", len, step)) continue;
    uint64_t ne = 0; int ok = 1;
    for (int start = 0; start + (len - 1) * step < 64 && ok; start++) for (int base = 0; base <= 128 && ok; base += 64) {
      rci_t Q[16]; for (int i = 0; i < len; i++) Q[i] = base + start + i * step;
      ok = check_spread(Q, len, base, &ne);
      /* irregular gaps: squeeze the upper half together */
      if (ok && step > 1) { for (int i = len / 2; i < len; i++) Q[i] = Q[i - 1] + 1 + ((i * 7) % step); if (Q[len - 1] - base < 64) ok = check_spread(Q, len, base, &ne); }
    }
    vx_count("evals", ne); vx_input(0xC19700 + (uint64_t)(len * 64 + step), 1); vx_case_end();
  }
}

void prop_enumerate(void) {
  if (!strcmp(vx_arg("mode", "initial"), "reinit")) {
    /* non-initial library state: the tables must be exactly right again after an explicit m4ri_fini() / m4ri_init() cycle
       (with heap traffic in between, so that freed table memory is recycled) */
    m4ri_fini();
    { void *junk[64]; for (int i = 0; i < 64; i++) { junk[i] = vx_malloc(32 + 56 * (size_t)i); memset(junk[i], 0x5A, 32 + 56 * (size_t)i); } for (int i = 0; i < 64; i++) vx_free(junk[i]); }
    m4ri_init();
    codebook(); tables();
    return;
  }
  codebook(); tables(); parity(); masks(); spread(); }
int main(int argc, char **argv) { return vx_main(argc, argv); }
